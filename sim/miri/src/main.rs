//! Engine M: the repository's real code, the REAL boomphf, the REAL rayon pool and
//! crossbeam scope, interpreted by miri. Miri's seeded scheduler (`-Zmiri-seed=N`,
//! preemption rate > 0) decides the interleaving, its weak-memory emulation exercises
//! the `Relaxed` orderings that shuttle flattens to SeqCst, and its data-race detector
//! and deadlock detector run alongside. One (miri seed, case seed) pair is one exactly
//! repeatable execution. The program only prints; the driver (./check) turns the output
//! into evidence and, on failure, a replay file holding the two seeds and the argv.

use boomphf::Mphf;
use debruijn::graph::BaseGraph;
use debruijn::kmer::{Kmer16, Kmer6, Kmer8};
use debruijn::Kmer;
use simcore::model::{check_against_ref_index, first_diff, kmer_bases, probes, transcript};
use simcore::monitor::Mon;
use simcore::pipe::base_graph_for;
use simcore::rec::digest_str;
use simcore::rng::Rng;
use simcore::spec::{gen_graph_spec, GraphSpec};
use std::collections::BTreeSet;
use std::sync::atomic::Ordering::Relaxed;

fn fail(class: &str, detail: String) -> ! {
    println!("MIRI-VIOLATION class={} detail={}", class, detail);
    std::process::exit(1);
}

/// Real rayon pool (default) or, with feature `standin`, the std-thread stand-in whose
/// workers are guaranteed to overlap (miri then interleaves the closure bodies).
#[cfg(not(feature = "standin"))]
fn with_pool<R: Send>(threads: usize, _seed: u64, f: impl FnOnce() -> R + Send) -> R {
    let pool = rayon::ThreadPoolBuilder::new().num_threads(threads).build().expect("pool");
    pool.install(f)
}

#[cfg(feature = "standin")]
fn with_pool<R: Send>(threads: usize, seed: u64, f: impl FnOnce() -> R + Send) -> R {
    rayon::set_max_workers(threads);
    rayon::set_seed(seed);
    f()
}

fn c19<K: Kmer + Send + Sync + serde::Serialize>(spec: &GraphSpec, threads: usize, seed: u64) {
    let base: BaseGraph<K, u16> = base_graph_for::<K>(spec);
    let g1 = with_pool(threads, seed, || base.clone().finish());
    let g2 = base.clone().finish_serial();
    let g3 = with_pool(threads, seed ^ 0x5555, || base.clone().finish());
    // interpreter budget: a reduced probe set (terminal k-mers, their reverse complements and two
    // one-base extensions per node) instead of the 36 probes per node used by engine T
    let p = if g1.len() <= 6 { probes(&g1, &[]) } else { small_probes(&g1) };
    let (t1, t2, t3) = (transcript(&g1, &p), transcript(&g2, &p), transcript(&g3, &p));
    if let Some(d) = first_diff(&t1, &t2) {
        fail("parallel-vs-serial", d);
    }
    if let Some(d) = first_diff(&t1, &t3) {
        fail("run-to-run", d);
    }
    let (j1, j3) = (serde_json::to_string(&g1).unwrap(), serde_json::to_string(&g3).unwrap());
    if j1 != j3 {
        fail("run-to-run", "serialised index differs between two finish() runs".into());
    }
    if let Err(e) = check_against_ref_index(&g1, &p) {
        fail("lookup-inexact", e);
    }
    println!(
        "MIRI-RESULT scenario=c19 pool={} ktype={} nodes={} threads={} probes={} digest={:016x}",
        if cfg!(feature = "standin") { "std-thread-standin" } else { "real-rayon" },
        spec.ktype,
        g1.len(),
        threads,
        p.len(),
        digest_str(&t1.join("\n"))
    );
}

fn small_probes<K: Kmer, D: std::fmt::Debug>(g: &debruijn::graph::DebruijnGraph<K, D>) -> Vec<K> {
    use debruijn::Vmer;
    let mut out = Vec::new();
    for i in 0..g.len() {
        let s = g.get_node(i).sequence();
        let (f, l): (K, K) = (s.first_kmer(), s.last_kmer());
        out.extend_from_slice(&[f, l, f.rc(), l.rc(), f.extend_left((i % 4) as u8), l.extend_right(((i + 1) % 4) as u8)]);
    }
    out
}

fn c18<K: Kmer + Send + Sync>(spec: &GraphSpec, threads: usize, gamma: f64) {
    let g = base_graph_for::<K>(spec).finish_serial();
    let mon = Mon::new(&g);
    let n = mon.total_kmers();
    if n == 0 {
        println!("MIRI-RESULT scenario=c18 ktype={} nodes=0 threads={} kmers=0 nth_step=0 nth_jump=0 digest=0", spec.ktype, threads);
        return;
    }
    let mut all: BTreeSet<Vec<u8>> = BTreeSet::new();
    for m in &mon.models {
        for k in m {
            if !all.insert(kmer_bases(k)) {
                println!("MIRI-RESULT scenario=c18 ktype={} nodes={} threads={} kmers={} skipped=duplicate-kmers digest=0", spec.ktype, g.len(), threads, n);
                return;
            }
        }
    }
    let mphf = Mphf::<K>::from_chunked_iterator_parallel(gamma, &mon, None, n as u64, threads);
    if let Some((class, msg)) = mon.first_error() {
        fail(&class, msg);
    }
    let mut seen = vec![false; n];
    let mut d = 0u64;
    for m in &mon.models {
        for k in m {
            match mphf.try_hash(k) {
                Some(x) if (x as usize) < n && !seen[x as usize] => {
                    seen[x as usize] = true;
                    d = d.wrapping_mul(31).wrapping_add(x);
                }
                other => fail("not-bijective", format!("k-mer got slot {:?} (n={})", other, n)),
            }
        }
    }
    println!(
        "MIRI-RESULT scenario=c18 ktype={} nodes={} threads={} kmers={} nth_step={} nth_jump={} digest={:016x}",
        spec.ktype,
        g.len(),
        threads,
        n,
        mon.calls_nth_small.load(Relaxed),
        mon.calls_nth_big.load(Relaxed),
        d
    );
}

fn main() {
    simcore::driver::install_logger();
    let args: Vec<String> = std::env::args().collect();
    if args.len() < 3 {
        eprintln!("usage: sim-miri <c19|c18> <case_seed>");
        std::process::exit(2);
    }
    let case_seed: u64 = args[2].parse().expect("case seed");
    let mut rng = Rng::new(case_seed);
    // small graphs: the interpreter is ~1000x slower than native code
    let spec = gen_graph_spec(&mut rng, &["Kmer6", "Kmer6", "Kmer8", "Kmer16"], 4, 64);
    let mut spec = spec;
    if args[1] == "c19" && rng.chance(1, 3) {
        let k = simcore::spec::k_of(&spec.ktype);
        spec.direct_nodes = simcore::spec::gen_direct_nodes(&mut rng, &spec.reads, k, 10);
    }
    // the stand-in variant exists to make closure bodies overlap: use more workers there
    let threads = if cfg!(feature = "standin") { rng.range(4, 8) } else { rng.range(2, 4) };
    let gamma = *rng.pick(&[1.7f64, 1.05, 1.2, 2.5]);
    match (args[1].as_str(), spec.ktype.as_str()) {
        ("c19", "Kmer6") => c19::<Kmer6>(&spec, threads, case_seed),
        ("c19", "Kmer8") => c19::<Kmer8>(&spec, threads, case_seed),
        ("c19", "Kmer16") => c19::<Kmer16>(&spec, threads, case_seed),
        ("c18", "Kmer6") => c18::<Kmer6>(&spec, threads, gamma),
        ("c18", "Kmer8") => c18::<Kmer8>(&spec, threads, gamma),
        ("c18", "Kmer16") => c18::<Kmer16>(&spec, threads, gamma),
        _ => {
            eprintln!("bad scenario");
            std::process::exit(2)
        }
    }
}
