//! C04 - sharded assembly equals unsharded assembly.
//!
//! The property is the statement that a multi-party computation - sharder, independent
//! shard workers, combiner - gives the result of the one-party computation. What the
//! parties cannot control is what the simulator owns: the order in which reads leave the
//! source, the latency of every piece on its way to a shard (hence the arrival order
//! inside each shard), which buckets are folded onto which shard, at-least-once delivery
//! (only in the idempotent configuration), the memory budget of every worker (pass plan),
//! how the shard graph is handed off (in memory, or persisted through faulty streams),
//! the latency of every shard graph on its way to the combiner (hence the combine order).
//! All of it comes from one seed through a discrete-event core; both sides of the oracle
//! are the real code.

use boomphf::hashmap::BoomHashMap2;
use debruijn::compression::{compress_graph, compress_kmers, compress_kmers_with_hash, CompressionSpec, ScmapCompress, SimpleCompress};
use debruijn::dna_string::DnaString;
use debruijn::filter::{filter_kmers, remove_censored_exts, remove_censored_exts_sharded, CountFilter, CountFilterSet, KmerSummarizer};
use debruijn::graph::{BaseGraph, DebruijnGraph};
use debruijn::msp::msp_sequence;
use debruijn::vmer::{Lmer1, Lmer2, Lmer3};
use debruijn::{verif_hooks, DnaBytes, Exts, Kmer, Vmer};
use serde::de::DeserializeOwned;
use serde::{Deserialize, Serialize};
use serde_json::{json, Value};
use simcore::des::Sim;
use simcore::dna::{self, GenCfg};
use simcore::driver::{Harness, Tier};
use simcore::io::{IoPlan, SimReader, SimWriter};
use simcore::model::{canon_diff, canon_graph, kmer_bases};
use simcore::rec::{Digest, Rec, Violation};
use simcore::rng::Rng;
use std::collections::{BTreeMap, BTreeSet};
use std::fmt::Debug;

use crate::ktypes::*;

pub const MORE_PAIRS: [(&str, &str); 8] = [
    ("Kmer4", "Kmer2"),
    ("Kmer5", "Kmer3"),
    ("Kmer10", "Kmer4"),
    ("Kmer14", "Kmer5"),
    ("Kmer15", "Kmer6"),
    ("Kmer24", "Kmer8"),
    ("Kmer30", "Kmer10"),
    ("Kmer40", "Kmer8"),
];

pub const PAIRS: [(&str, &str); 9] = [
    ("Kmer6", "Kmer3"),
    ("Kmer8", "Kmer4"),
    ("Kmer12", "Kmer5"),
    ("Kmer16", "Kmer6"),
    ("Kmer20", "Kmer8"),
    ("KmerK31", "Kmer6"),
    ("Kmer32", "Kmer8"),
    ("Kmer48", "Kmer10"),
    ("Kmer64", "Kmer12"),
];

#[derive(Clone, Debug, Serialize, Deserialize, PartialEq)]
pub enum Container {
    DnaString,
    DnaBytes,
    Lmer3,
    /// smallest fixed-size container that holds 2K-P bases (Lmer1: 28, Lmer2: 60, Lmer3: 92)
    LmerTight,
    /// zero-copy: pieces are sub-slices of (possibly reverse-complemented) views into one packed string
    SliceViews,
    /// the older entry point `msp::simple_scan` (P <= 8) decides intervals and bucket ids; pieces are
    /// cut from the read by the caller
    SimpleScan,
    /// one packed string per read, `Scanner` intervals, pieces are `DnaString::slice`s and the flanks
    /// come from `Exts::from_dna_string`
    OwnedStringSlices,
}

#[derive(Clone, Debug, Serialize, Deserialize, PartialEq)]
pub enum SpecKind {
    /// counts, SimpleCompress(saturating sum)
    Sum,
    /// label sets, ScmapCompress (join only equal label sets)
    Scmap,
    /// label sets, a user-written spec: join only equal label sets, and never a node whose label
    /// set is exactly {0} ("keep the k-mers of sample 0 uncompressed") - a `join_test` that can
    /// refuse two EQUAL payloads
    ScmapExcept,
}

#[derive(Clone, Debug, Serialize, Deserialize)]
pub struct Case {
    pub ktype: String,
    pub ptype: String,
    pub container: Container,
    pub stranded: bool,
    /// `rc` argument of msp_sequence; must be true when unstranded
    pub msp_rc: bool,
    /// None = default permutation of the 4^P p-mers; Some(seed) = seeded shuffle
    pub perm_seed: Option<u64>,
    pub threshold: usize,
    pub spec: SpecKind,
    #[serde(with = "simcore::dna::serde_seqs")]
    pub reads: Vec<Vec<u8>>,
    pub labels: Vec<u8>,
    // ---- environment
    /// order in which the source emits reads
    pub read_order: Vec<usize>,
    /// None = one shard per bucket; Some(m) = bucket mod m
    pub fold_mod: Option<usize>,
    /// 0 = unit latencies (FIFO); otherwise seed of piece / graph latencies
    pub latency_seed: u64,
    /// per mille of pieces delivered twice (only honoured in the idempotent configuration)
    pub dup_permille: u32,
    /// 0 = every worker gets a one-pass budget; otherwise seed of per-shard pass plans
    pub budget_seed: u64,
    /// shard worker uses report_all + remove_censored_exts_sharded + compress_kmers (true)
    /// or compress_kmers_with_hash directly (false)
    pub worker_censor: bool,
    /// 0 = in-memory hand-off; otherwise seed of the persistence hop's stream plans
    pub persist_seed: u64,
    /// shard workers that do not censor call the slice entry point `compress_kmers` on the table in
    /// iteration (i.e. unsorted) order instead of `compress_kmers_with_hash`
    #[serde(default)]
    pub worker_slice_entry: bool,
}

impl Case {
    fn idempotent(&self) -> bool {
        self.threshold <= 1 && self.spec != SpecKind::Sum
    }
}

// ------------------------------------------------------------------------------------

trait Mode {
    type DS: Clone + Debug + PartialEq + Serialize + DeserializeOwned + Send + Sync;
    type Summ: KmerSummarizer<u8, Self::DS>;
    type Spec: CompressionSpec<Self::DS>;
    fn summ(threshold: usize) -> Self::Summ;
    fn spec() -> Self::Spec;
    fn fmt(d: &Self::DS) -> String;
}

struct SumMode;
fn sat_add(a: u16, b: &u16) -> u16 {
    a.saturating_add(*b)
}
impl Mode for SumMode {
    type DS = u16;
    type Summ = CountFilter;
    type Spec = SimpleCompress<u16, fn(u16, &u16) -> u16>;
    fn summ(t: usize) -> CountFilter {
        CountFilter::new(t)
    }
    fn spec() -> Self::Spec {
        SimpleCompress::new(sat_add as fn(u16, &u16) -> u16)
    }
    fn fmt(d: &u16) -> String {
        format!("{}", d)
    }
}

struct ScmapMode;
impl Mode for ScmapMode {
    type DS = Vec<u8>;
    type Summ = CountFilterSet<u8>;
    type Spec = ScmapCompress<Vec<u8>>;
    fn summ(t: usize) -> CountFilterSet<u8> {
        CountFilterSet::new(t)
    }
    fn spec() -> Self::Spec {
        ScmapCompress::new()
    }
    fn fmt(d: &Vec<u8>) -> String {
        format!("{:?}", d)
    }
}

struct ExceptSpec;
impl CompressionSpec<Vec<u8>> for ExceptSpec {
    fn reduce(&self, path_object: Vec<u8>, _kmer_object: &Vec<u8>) -> Vec<u8> {
        // only ever called on equal payloads
        path_object
    }
    fn join_test(&self, d1: &Vec<u8>, d2: &Vec<u8>) -> bool {
        d1 == d2 && d1.as_slice() != [0u8]
    }
}

struct ScmapExceptMode;
impl Mode for ScmapExceptMode {
    type DS = Vec<u8>;
    type Summ = CountFilterSet<u8>;
    type Spec = ExceptSpec;
    fn summ(t: usize) -> CountFilterSet<u8> {
        CountFilterSet::new(t)
    }
    fn spec() -> Self::Spec {
        ExceptSpec
    }
    fn fmt(d: &Vec<u8>) -> String {
        format!("{:?}", d)
    }
}

fn sorted_table<K: Kmer, DS: Clone + Debug>(t: &BoomHashMap2<K, Exts, DS>) -> Vec<(K, (Exts, DS))> {
    let mut v: Vec<(K, (Exts, DS))> = t.iter().map(|(k, e, d)| (*k, (*e, d.clone()))).collect();
    v.sort_by_key(|x| x.0);
    v
}

/// The one-party computation: all reads in one pass.
fn one_pass<K: Kmer + Send + Sync, M: Mode>(c: &Case) -> DebruijnGraph<K, M::DS> {
    let seqs: Vec<(DnaBytes, Exts, u8)> = c
        .reads
        .iter()
        .zip(c.labels.iter())
        .filter(|(r, _)| r.len() >= K::k())
        .map(|(r, l)| (DnaBytes(r.clone()), Exts::empty(), *l))
        .collect();
    verif_hooks::set_bytes_per_unit(None);
    let (t, _) = filter_kmers::<K, _, u8, M::DS, M::Summ>(&seqs, &Box::new(M::summ(c.threshold)), c.stranded, false, 8);
    let mut v = sorted_table(&t);
    remove_censored_exts(c.stranded, &mut v);
    compress_kmers(c.stranded, &M::spec(), &v).finish_serial()
}

enum Ev {
    Emit(usize),
    Deliver { shard: u64, piece: usize },
    StartShard(u64),
    GraphArrive(u64),
}

struct Piece<V> {
    bucket: u32,
    exts: Exts,
    seq: V,
    label: u8,
}

fn hand_off<K: Kmer + Serialize + DeserializeOwned, DS: Clone + Serialize + DeserializeOwned>(
    g: BaseGraph<K, DS>,
    rng: &mut Rng,
    rec: &mut Rec,
) -> Result<BaseGraph<K, DS>, Violation> {
    // persistence hop: serialise into a faulty (transparent) sink, read back from a faulty source
    let wplan = IoPlan::gen_transparent(rng);
    let rplan = IoPlan::gen_transparent(rng);
    let mut w = SimWriter::new(wplan);
    serde_json::to_writer(&mut w, &g).map_err(|e| Violation::new("hand-off-failed", "serde BaseGraph hand-off", format!("to_writer failed under transparent faults: {}", e)))?;
    let bytes = w.finish(rec);
    let mut r = SimReader::new(rplan, &bytes);
    let back: BaseGraph<K, DS> =
        serde_json::from_reader(&mut r).map_err(|e| Violation::new("hand-off-failed", "serde BaseGraph hand-off", format!("from_reader failed under transparent faults: {}", e)))?;
    r.finish(rec);
    rec.count("persist_hops");
    Ok(back)
}

type Sharder<'s, V> = &'s dyn Fn(usize, Option<&[usize]>) -> Vec<(u32, Exts, V)>;

fn run_sharded<K, P, V, M>(c: &Case, rec: &mut Rec, sharder: Sharder<V>) -> Result<DebruijnGraph<K, M::DS>, Violation>
where
    K: Kmer + Send + Sync + Serialize + DeserializeOwned,
    P: Kmer,
    V: Vmer + Clone,
    M: Mode,
{
    let k = K::k();
    let p = P::k();
    let perm: Option<Vec<usize>> = c.perm_seed.map(|s| Rng::new(s).perm(1usize << (2 * p)));
    rec.choice("perm_custom", c.perm_seed.is_some() as u64, c.perm_seed.is_none());
    rec.choice("fold_mod", c.fold_mod.unwrap_or(0) as u64, c.fold_mod.is_none());
    rec.choice("msp_rc", c.msp_rc as u64, c.msp_rc == !c.stranded);
    rec.choice("worker_censor", c.worker_censor as u64, !c.worker_censor);
    let mut lat_rng = Rng::new(c.latency_seed);
    let mut lat = |rng: &mut Rng, max: usize| -> u64 {
        if c.latency_seed == 0 {
            1
        } else {
            rng.range(1, max) as u64
        }
    };
    let dup = if c.idempotent() { c.dup_permille } else { 0 };
    let mut sim: Sim<Ev> = Sim::new();
    let identity_order = c.read_order.iter().enumerate().all(|(i, x)| i == *x);
    rec.choice("read_order_identity", identity_order as u64, identity_order);
    for (i, r) in c.read_order.iter().enumerate() {
        sim.after(i as u64 * 3, Ev::Emit(*r));
    }
    let mut pieces: Vec<Piece<V>> = Vec::new();
    let mut shard_inbox: BTreeMap<u64, Vec<usize>> = BTreeMap::new();
    let mut delivered_dups = 0u64;
    // phase 1: source + sharder + shuffle
    while let Some((_t, _s, ev)) = sim.next() {
        match ev {
            Ev::Emit(ri) => {
                let read = &c.reads[ri];
                rec.ev("emit", ri as u64, read.len() as u64);
                let parts = sharder(ri, perm.as_deref());
                for (bucket, exts, seq) in parts {
                    let shard = match c.fold_mod {
                        None => bucket as u64,
                        Some(m) => (bucket as u64) % (m as u64),
                    };
                    let id = pieces.len();
                    pieces.push(Piece {
                        bucket,
                        exts,
                        seq,
                        label: c.labels[ri],
                    });
                    let l = lat(&mut lat_rng, 40);
                    sim.after(l, Ev::Deliver { shard, piece: id });
                    if dup > 0 && lat_rng.below(1000) < dup as usize {
                        let l2 = lat(&mut lat_rng, 60);
                        sim.after(l2, Ev::Deliver { shard, piece: id });
                        delivered_dups += 1;
                    }
                }
            }
            Ev::Deliver { shard, piece } => {
                rec.ev("deliver", shard, piece as u64);
                shard_inbox.entry(shard).or_default().push(piece);
            }
            _ => unreachable!(),
        }
    }
    rec.add("fault_duplicate_delivery", delivered_dups);
    rec.add("pieces", pieces.len() as u64);
    // arrival order inside shards: did latency reorder anything?
    let reordered = shard_inbox.values().filter(|v| v.windows(2).any(|w| w[0] > w[1])).count();
    rec.add("env_shards_with_reordered_arrivals", reordered as u64);
    rec.env.u64(reordered as u64);
    let n_shards = shard_inbox.len();
    rec.ev("shuffle_done", n_shards as u64, sim.now);
    // phase 2: shard workers start after the shuffle barrier, in a seeded order
    for s in shard_inbox.keys() {
        let l = lat(&mut lat_rng, 25);
        sim.after(l, Ev::StartShard(*s));
    }
    let mut budget_rng = Rng::new(c.budget_seed);
    let mut persist_rng = Rng::new(c.persist_seed);
    let mut shard_graphs: BTreeMap<u64, BaseGraph<K, M::DS>> = BTreeMap::new();
    let mut arrival: Vec<u64> = Vec::new();
    let mut shard_kmers: BTreeMap<Vec<u8>, u64> = BTreeMap::new();
    let mut multi_pass_workers = 0u64;
    while let Some((_t, _s, ev)) = sim.next() {
        match ev {
            Ev::StartShard(s) => {
                let inbox = &shard_inbox[&s];
                let seqs: Vec<(V, Exts, u8)> = inbox.iter().map(|i| (pieces[*i].seq.clone(), pieces[*i].exts, pieces[*i].label)).collect();
                // budget -> pass plan
                let n_kmers: usize = seqs.iter().map(|x| x.0.len().saturating_sub(k - 1)).sum();
                let kmer_mem = n_kmers * std::mem::size_of::<(K, u8)>();
                let slices = if c.budget_seed == 0 {
                    1
                } else {
                    match budget_rng.below(4) {
                        0 => 1,
                        1 => 2,
                        2 => budget_rng.range(2, 9),
                        _ => budget_rng.range(2, 300),
                    }
                };
                let (ms, unit) = crate::c05::budget_for(kmer_mem, slices, 1);
                verif_hooks::set_bytes_per_unit(Some(unit));
                let (table, all) = filter_kmers::<K, V, u8, M::DS, M::Summ>(&seqs, &Box::new(M::summ(c.threshold)), c.stranded, c.worker_censor, ms);
                verif_hooks::set_bytes_per_unit(None);
                let passes = verif_hooks::last_passes();
                if passes > 1 {
                    multi_pass_workers += 1;
                }
                rec.choice("worker_passes", passes as u64, passes == 1);
                for (kk, _, _) in table.iter() {
                    if let Some(other) = shard_kmers.insert(kmer_bases(kk), s) {
                        if other != s {
                            rec.count("diag_kmer_in_two_shards");
                        }
                    }
                }
                let g: BaseGraph<K, M::DS> = if c.worker_censor {
                    let mut v = sorted_table(&table);
                    remove_censored_exts_sharded(c.stranded, &mut v, &all);
                    compress_kmers(c.stranded, &M::spec(), &v)
                } else if c.worker_slice_entry {
                    let v: Vec<(K, (Exts, M::DS))> = table.iter().map(|(k, e, d)| (*k, (*e, d.clone()))).collect();
                    compress_kmers(c.stranded, &M::spec(), &v)
                } else {
                    compress_kmers_with_hash(c.stranded, &M::spec(), &table)
                };
                rec.ev("shard_done", s, g.len() as u64);
                let g = if c.persist_seed != 0 && persist_rng.chance(1, 2) { hand_off(g, &mut persist_rng, rec)? } else { g };
                shard_graphs.insert(s, g);
                let l = lat(&mut lat_rng, 50);
                sim.after(l, Ev::GraphArrive(s));
            }
            Ev::GraphArrive(s) => {
                rec.ev("graph_arrive", s, sim.now);
                arrival.push(s);
            }
            _ => unreachable!(),
        }
    }
    rec.add("env_multi_pass_workers", multi_pass_workers);
    let sorted_arrival = arrival.windows(2).all(|w| w[0] < w[1]);
    rec.choice("combine_order_sorted", sorted_arrival as u64, sorted_arrival);
    let mut od = Digest::new();
    for s in &arrival {
        od.u64(*s);
    }
    rec.env.u64(od.0);
    rec.sim_time = sim.now;
    rec.add("shards", n_shards as u64);
    if n_shards > 1 {
        rec.count("reach_multi_shard");
    }
    // phase 3: combiner, in arrival order
    let graphs: Vec<BaseGraph<K, M::DS>> = arrival.iter().map(|s| shard_graphs.remove(s).unwrap()).collect();
    let shard_node_kmers: Vec<(u64, BTreeSet<Vec<u8>>)> = Vec::new();
    let _ = shard_node_kmers;
    let combined = if graphs.is_empty() { BaseGraph::<K, M::DS>::new(c.stranded) } else { BaseGraph::combine(graphs.into_iter()) };
    rec.ev("combined", combined.len() as u64, 0);
    let finished = combined.finish();
    let out = compress_graph(c.stranded, &M::spec(), finished, None);
    rec.ev("recompressed", out.len() as u64, 0);
    // reach: a final node spanning >= 2 shards
    let mut spanning = 0;
    for i in 0..out.len() {
        let b = simcore::model::node_bases(&out, i);
        let mut shards: BTreeSet<u64> = BTreeSet::new();
        for pz in 0..=(b.len() - k) {
            let km = &b[pz..pz + k];
            let key = if c.stranded { km.to_vec() } else { dna::canon(km).0 };
            if let Some(s) = shard_kmers.get(&key) {
                shards.insert(*s);
            }
        }
        if shards.len() >= 2 {
            spanning += 1;
        }
    }
    if spanning > 0 {
        rec.count("reach_node_spans_shards");
    }
    rec.add("nodes_spanning_shards", spanning);
    Ok(out)
}

fn run_mode<K, P, V, M>(c: &Case, rec: &mut Rec, sharder: Sharder<V>) -> Result<(), Violation>
where
    K: Kmer + Send + Sync + Serialize + DeserializeOwned,
    P: Kmer,
    V: Vmer + Clone,
    M: Mode,
{
    let mut d = Digest::new();
    for r in &c.reads {
        d.bytes(r);
    }
    rec.env.u64(d.0);
    let sharded = run_sharded::<K, P, V, M>(c, rec, sharder)?;
    let reference = one_pass::<K, M>(c);
    rec.ev("reference", reference.len() as u64, 0);
    let fmt = |d: &M::DS| M::fmt(d);
    let a = canon_graph(&sharded, &fmt);
    let b = canon_graph(&reference, &fmt);
    rec.add("canon_cycles", b.cycles as u64);
    rec.add("canon_palindromic_ends", b.palindromic_ends as u64);
    rec.nontrivial = reference.len() >= 1 && rec.counters.get("shards").cloned().unwrap_or(0) > 1;
    if let Some((class, detail)) = canon_diff(&a, &b) {
        return Err(Violation::new(class, "sharded pipeline vs one-pass pipeline", format!("A = sharded, B = one pass: {}", detail)));
    }
    Ok(())
}

fn run_v<K, P, V>(c: &Case, rec: &mut Rec) -> Result<(), Violation>
where
    K: Kmer + Send + Sync + Serialize + DeserializeOwned,
    P: Kmer,
    V: Vmer + Clone,
{
    // the documented sharder: msp_sequence copies each piece into a container of type V
    let k = K::k();
    let sharder = |ri: usize, perm: Option<&[usize]>| msp_sequence::<P, V>(k, &c.reads[ri], perm, c.msp_rc);
    run_with::<K, P, V>(c, rec, &sharder)
}

fn run_with<K, P, V>(c: &Case, rec: &mut Rec, sharder: Sharder<V>) -> Result<(), Violation>
where
    K: Kmer + Send + Sync + Serialize + DeserializeOwned,
    P: Kmer,
    V: Vmer + Clone,
{
    match c.spec {
        SpecKind::Sum => run_mode::<K, P, V, SumMode>(c, rec, sharder),
        SpecKind::Scmap => run_mode::<K, P, V, ScmapMode>(c, rec, sharder),
        SpecKind::ScmapExcept => run_mode::<K, P, V, ScmapExceptMode>(c, rec, sharder),
    }
}

/// Zero-copy sharder: all reads live in one packed string (every other one stored
/// reverse-complemented and seen through an rc VIEW), `Scanner` finds the minimizer intervals on
/// the view and the pieces are sub-slices of it - the alternative the `msp` module itself points
/// to ("use the Scanner type"). Flanking bases are read from the view.
fn run_views<K, P>(c: &Case, rec: &mut Rec) -> Result<(), Violation>
where
    K: Kmer + Send + Sync + Serialize + DeserializeOwned,
    P: Kmer,
{
    use debruijn::dna_string::DnaStringSlice;
    use debruijn::msp::Scanner;
    use debruijn::Mer;
    let k = K::k();
    let mut backing = DnaString::new();
    let mut spans = Vec::new();
    for (i, r) in c.reads.iter().enumerate() {
        for j in 0..(3 + (i * 7) % 11) {
            backing.push(((i + j) % 4) as u8);
        }
        let start = backing.len();
        let as_rc = i % 2 == 1;
        if as_rc {
            for b in dna::rc(r) {
                backing.push(b);
            }
        } else {
            for b in r {
                backing.push(*b);
            }
        }
        spans.push((start, backing.len(), as_rc));
    }
    backing.push(0);
    let views: Vec<DnaStringSlice> = spans.iter().map(|(a, b, v)| if *v { backing.slice(*a, *b).rc() } else { backing.slice(*a, *b) }).collect();
    rec.count("reach_zero_copy_sharder");
    let rc = c.msp_rc;
    let sharder = |ri: usize, perm: Option<&[usize]>| -> Vec<(u32, Exts, DnaStringSlice)> {
        let v = &views[ri];
        if v.len() < k {
            return Vec::new();
        }
        let score = |pi: &P| -> usize {
            let f = |x: &P| match perm {
                Some(p) => p[x.to_u64() as usize],
                None => x.to_u64() as usize,
            };
            if rc {
                std::cmp::min(f(pi), f(&pi.rc()))
            } else {
                f(pi)
            }
        };
        Scanner::new(v, score, k)
            .scan()
            .into_iter()
            .map(|iv| {
                let (a, b) = (iv.start as usize, iv.start as usize + iv.len as usize);
                let l = if a > 0 { 1u8 << v.get(a - 1) } else { 0 };
                let r = if b < v.len() { 1u8 << v.get(b) } else { 0 };
                (iv.bucket() as u32, Exts::new((r << 4) | l), v.slice(a, b))
            })
            .collect()
    };
    run_with::<K, P, DnaStringSlice>(c, rec, &sharder)
}

/// The older sharder entry point: `simple_scan` returns (bucket, start, len) intervals; the caller
/// cuts the pieces and reads the flanking bases off the read.
#[allow(deprecated)]
fn run_simple_scan<K, P>(c: &Case, rec: &mut Rec) -> Result<(), Violation>
where
    K: Kmer + Send + Sync + Serialize + DeserializeOwned,
    P: Kmer,
{
    let k = K::k();
    if P::k() > 8 {
        return run_v::<K, P, DnaBytes>(c, rec);
    }
    rec.count("reach_simple_scan_sharder");
    let rc = c.msp_rc;
    let identity: Vec<usize> = (0..1usize << (2 * P::k())).collect();
    let sharder = |ri: usize, perm: Option<&[usize]>| -> Vec<(u32, Exts, DnaBytes)> {
        let r = &c.reads[ri];
        if r.len() < k {
            return Vec::new();
        }
        let whole = DnaBytes(r.clone());
        debruijn::msp::simple_scan::<_, P>(k, &whole, perm.unwrap_or(&identity), rc)
            .into_iter()
            .map(|iv| {
                let (a, b) = (iv.start(), iv.start() + iv.len());
                let l = if a > 0 { 1u8 << r[a - 1] } else { 0 };
                let rx = if b < r.len() { 1u8 << r[b] } else { 0 };
                (iv.bucket() as u32, Exts::new((rx << 4) | l), DnaBytes(r[a..b].to_vec()))
            })
            .collect()
    };
    run_with::<K, P, DnaBytes>(c, rec, &sharder)
}

/// One packed string per read; pieces are slices of it and their flanks come from
/// `Exts::from_dna_string` (the packed-string counterpart of `from_slice_bounds`).
fn run_owned_slices<K, P>(c: &Case, rec: &mut Rec) -> Result<(), Violation>
where
    K: Kmer + Send + Sync + Serialize + DeserializeOwned,
    P: Kmer,
{
    use debruijn::dna_string::DnaStringSlice;
    use debruijn::msp::Scanner;
    let k = K::k();
    let strings: Vec<DnaString> = c.reads.iter().map(|r| DnaString::from_bytes(r)).collect();
    rec.count("reach_owned_slice_sharder");
    let rc = c.msp_rc;
    let sharder = |ri: usize, perm: Option<&[usize]>| -> Vec<(u32, Exts, DnaStringSlice)> {
        let v = &strings[ri];
        if v.len() < k {
            return Vec::new();
        }
        let score = |pi: &P| -> usize {
            let f = |x: &P| match perm {
                Some(p) => p[x.to_u64() as usize],
                None => x.to_u64() as usize,
            };
            if rc {
                std::cmp::min(f(pi), f(&pi.rc()))
            } else {
                f(pi)
            }
        };
        Scanner::new(v, score, k)
            .scan()
            .into_iter()
            .map(|iv| {
                let (a, n) = (iv.start as usize, iv.len as usize);
                (iv.bucket() as u32, Exts::from_dna_string(v, a, n), v.slice(a, a + n))
            })
            .collect()
    };
    run_with::<K, P, DnaStringSlice>(c, rec, &sharder)
}

fn run_kp<K, P>(c: &Case, rec: &mut Rec, lmer_ok: bool) -> Result<(), Violation>
where
    K: Kmer + Send + Sync + Serialize + DeserializeOwned,
    P: Kmer,
{
    match c.container {
        Container::SliceViews => run_views::<K, P>(c, rec),
        Container::SimpleScan => run_simple_scan::<K, P>(c, rec),
        Container::OwnedStringSlices => run_owned_slices::<K, P>(c, rec),
        Container::DnaString => run_v::<K, P, DnaString>(c, rec),
        Container::DnaBytes => run_v::<K, P, DnaBytes>(c, rec),
        Container::Lmer3 => {
            if lmer_ok {
                run_lmer::<K, P>(c, rec)
            } else {
                run_v::<K, P, DnaBytes>(c, rec)
            }
        }
        Container::LmerTight => {
            let need = 2 * K::k() - P::k();
            if need <= 28 {
                run_v::<K, P, Lmer1>(c, rec)
            } else if need <= 60 {
                run_v::<K, P, Lmer2>(c, rec)
            } else if need <= 92 {
                run_v::<K, P, Lmer3>(c, rec)
            } else {
                run_v::<K, P, DnaBytes>(c, rec)
            }
        }
    }
}

fn run_lmer<K, P>(c: &Case, rec: &mut Rec) -> Result<(), Violation>
where
    K: Kmer + Send + Sync + Serialize + DeserializeOwned,
    P: Kmer,
{
    run_v::<K, P, Lmer3>(c, rec)
}

pub fn lmer_fits(ktype: &str, ptype: &str) -> bool {
    2 * k_of(ktype) - k_of(ptype) <= 92 && matches!(ktype, "Kmer16" | "KmerK31" | "Kmer32")
}

pub struct C04;

impl Harness for C04 {
    type Case = Case;
    fn property(&self) -> &'static str {
        "C04"
    }
    fn name(&self) -> &'static str {
        "c04-pipeline"
    }
    fn engine(&self) -> &'static str {
        "S"
    }
    fn cases(&self, tier: Tier) -> u64 {
        match tier {
            Tier::Quick => 150_000,
            Tier::Thorough => 10_000_000,
        }
    }
    fn gen(&self, rng: &mut Rng, tier: Tier) -> Case {
        // small K dominate: dense graphs, palindromes and repeats at shard junctions
        let pair = match rng.below(44) {
            0..=9 => PAIRS[0],
            10..=17 => PAIRS[1],
            18..=23 => PAIRS[2],
            24..=28 => PAIRS[3],
            29..=31 => PAIRS[4],
            32..=35 => PAIRS[5],
            36..=37 => PAIRS[6],
            38 => PAIRS[7],
            39..=42 => *rng.pick(&MORE_PAIRS),
            _ => {
                if tier == Tier::Thorough && rng.chance(1, 20) {
                    PAIRS[8]
                } else {
                    PAIRS[7]
                }
            }
        };
        let k = k_of(pair.0);
        // thorough tier: one case in ten is a larger assembly (more reads, longer reads, more shards)
        let large = tier == Tier::Thorough && rng.chance(1, 10);
        let cfg = GenCfg {
            k,
            max_reads: if large { 24 } else { 10 },
            max_len: if large { 400 } else { (2 * k + 60).min(160) },
            allow_short: true,
        };
        let (mut reads, _) = dna::gen_reads(rng, &cfg);
        if rng.chance(1, 300) {
            reads.clear(); // nothing to assemble
        }
        if tier == Tier::Thorough && rng.chance(1, 3000) && k <= 32 {
            // one read longer than 2^16 bases (u16 interval lengths, u32 starts)
            let hl = 65_536 + rng.range(100, 3000);
            reads.push(dna::random_seq(rng, hl, &[0, 1, 2, 3]));
        }
        let n = reads.len();
        let stranded = rng.chance(1, 3);
        let label_mode = rng.below(3);
        let labels: Vec<u8> = (0..n)
            .map(|i| match label_mode {
                0 => 1,
                1 => (i % 2) as u8,
                _ => rng.below(3) as u8,
            })
            .collect();
        let container = match rng.below(9) {
            6 => Container::SliceViews,
            7 => Container::SimpleScan,
            8 => Container::OwnedStringSlices,
            0 | 1 => Container::DnaString,
            2 | 3 => Container::DnaBytes,
            4 => {
                if 2 * k - k_of(pair.1) <= 92 {
                    Container::LmerTight
                } else {
                    Container::DnaBytes
                }
            }
            _ => {
                if lmer_fits(pair.0, pair.1) {
                    Container::Lmer3
                } else {
                    Container::DnaBytes
                }
            }
        };
        let spec = match rng.below(8) {
            0..=3 => SpecKind::Sum,
            4..=6 => SpecKind::Scmap,
            _ => SpecKind::ScmapExcept,
        };
        let threshold = match rng.below(6) {
            0..=2 => 1,
            3 | 4 => 2,
            _ => 3,
        };
        let read_order = if rng.chance(1, 3) { (0..n).collect() } else { rng.perm(n) };
        let p = k_of(pair.1);
        let fold_mod = match rng.below(4) {
            0 => None,
            1 => Some(rng.range(1, 3)),
            2 => Some(rng.range(2, 9)),
            _ => Some(rng.range(2, 64.min(1 << (2 * p)))),
        };
        Case {
            ktype: pair.0.to_string(),
            ptype: pair.1.to_string(),
            container,
            stranded,
            msp_rc: if stranded { rng.chance(1, 2) } else { true },
            perm_seed: if rng.chance(1, 2) || p >= 10 { None } else { Some(rng.next_u64() | 1) },
            threshold,
            spec,
            reads,
            labels,
            read_order,
            fold_mod,
            latency_seed: if rng.chance(1, 5) { 0 } else { rng.next_u64() | 1 },
            dup_permille: if rng.chance(1, 2) { 0 } else { rng.range(50, 600) as u32 },
            budget_seed: if rng.chance(1, 3) { 0 } else { rng.next_u64() | 1 },
            worker_censor: rng.chance(1, 2),
            persist_seed: if rng.chance(2, 3) { 0 } else { rng.next_u64() | 1 },
            worker_slice_entry: rng.chance(1, 3),
        }
    }
    fn run(&self, c: &Case, rec: &mut Rec) -> Result<(), Violation> {
        match (c.ktype.as_str(), c.ptype.as_str()) {
            ("Kmer6", "Kmer3") => run_kp::<Kmer6, Kmer3>(c, rec, false),
            ("Kmer8", "Kmer4") => run_kp::<Kmer8, Kmer4>(c, rec, false),
            ("Kmer12", "Kmer5") => run_kp::<Kmer12, Kmer5>(c, rec, false),
            ("Kmer16", "Kmer6") => run_kp::<Kmer16, Kmer6>(c, rec, true),
            ("Kmer20", "Kmer8") => run_kp::<Kmer20, Kmer8>(c, rec, false),
            ("KmerK31", "Kmer6") => run_kp::<KmerK31, Kmer6>(c, rec, true),
            ("Kmer32", "Kmer8") => run_kp::<Kmer32, Kmer8>(c, rec, true),
            ("Kmer48", "Kmer10") => run_kp::<Kmer48, Kmer10>(c, rec, false),
            ("Kmer64", "Kmer12") => run_kp::<Kmer64, Kmer12>(c, rec, false),
            ("Kmer4", "Kmer2") => run_kp::<Kmer4, Kmer2>(c, rec, false),
            ("Kmer5", "Kmer3") => run_kp::<Kmer5, Kmer3>(c, rec, false),
            ("Kmer10", "Kmer4") => run_kp::<Kmer10, Kmer4>(c, rec, false),
            ("Kmer14", "Kmer5") => run_kp::<Kmer14, Kmer5>(c, rec, false),
            ("Kmer15", "Kmer6") => run_kp::<Kmer15, Kmer6>(c, rec, false),
            ("Kmer24", "Kmer8") => run_kp::<Kmer24, Kmer8>(c, rec, false),
            ("Kmer30", "Kmer10") => run_kp::<Kmer30, Kmer10>(c, rec, false),
            ("Kmer40", "Kmer8") => run_kp::<Kmer40, Kmer8>(c, rec, false),
            other => panic!("pair {:?} not in list", other),
        }
    }
    fn shrink(&self, c: &Case) -> Vec<Case> {
        let mut out = Vec::new();
        let k = k_of(&c.ktype);
        // environment first: identity orders, no faults, fewer shards, one pass
        if c.persist_seed != 0 {
            let mut x = c.clone();
            x.persist_seed = 0;
            out.push(x);
        }
        if c.dup_permille != 0 {
            let mut x = c.clone();
            x.dup_permille = 0;
            out.push(x);
        }
        if c.budget_seed != 0 {
            let mut x = c.clone();
            x.budget_seed = 0;
            out.push(x);
        }
        if c.latency_seed != 0 {
            let mut x = c.clone();
            x.latency_seed = 0;
            out.push(x);
        }
        if !c.read_order.iter().enumerate().all(|(i, x)| i == *x) {
            let mut x = c.clone();
            x.read_order = (0..c.reads.len()).collect();
            out.push(x);
        }
        match c.fold_mod {
            None => {
                for m in [1usize, 2, 4] {
                    let mut x = c.clone();
                    x.fold_mod = Some(m);
                    out.push(x);
                }
            }
            Some(m) if m > 1 => {
                for m2 in [1usize, 2, m / 2] {
                    if m2 < m && m2 >= 1 {
                        let mut x = c.clone();
                        x.fold_mod = Some(m2);
                        out.push(x);
                    }
                }
            }
            _ => {}
        }
        if c.perm_seed.is_some() {
            let mut x = c.clone();
            x.perm_seed = None;
            out.push(x);
        }
        if c.worker_censor {
            let mut x = c.clone();
            x.worker_censor = false;
            out.push(x);
        }
        if c.worker_slice_entry {
            let mut x = c.clone();
            x.worker_slice_entry = false;
            out.push(x);
        }
        if c.container != Container::DnaBytes {
            let mut x = c.clone();
            x.container = Container::DnaBytes;
            out.push(x);
        }
        // reads
        for i in 0..c.reads.len() {
            let mut x = c.clone();
            x.reads.remove(i);
            x.labels.remove(i);
            x.read_order = x.read_order.iter().filter(|r| **r != i).map(|r| if *r > i { *r - 1 } else { *r }).collect();
            out.push(x);
        }
        for i in 0..c.reads.len() {
            let n = c.reads[i].len();
            if n > k {
                for (a, b) in [(0, n / 2 + k / 2), (n / 2 - (k / 2).min(n / 2), n), (1, n), (0, n - 1)] {
                    if b > a && b - a >= k && b - a < n {
                        let mut x = c.clone();
                        x.reads[i] = c.reads[i][a..b].to_vec();
                        out.push(x);
                    }
                }
            }
        }
        if c.threshold > 1 {
            let mut x = c.clone();
            x.threshold = 1;
            out.push(x);
        }
        if c.labels.iter().any(|l| *l != 1) {
            let mut x = c.clone();
            x.labels = vec![1; c.labels.len()];
            out.push(x);
        }
        out
    }
    fn rule(&self) -> String {
        "case = (read set, (K,P) pair, minimizer permutation, container, strandedness, threshold, spec/labels) + environment trace (source order, piece latencies => per-shard \
         arrival order, bucket->shard fold, duplicate deliveries in the idempotent configuration, per-worker budgets => pass plans, worker flavour, persistence hop with transparent \
         stream faults, graph latencies => combine order); oracle = canonical form of the sharded result equals that of the one-pass result (node k-mer partition, payloads, adjacencies, \
         extension bits; up to node order, orientation and isolated-cycle cut); non-trivial = > 1 shard and a non-empty reference graph; distinct = distinct environment traces by digest"
            .into()
    }
    fn components(&self) -> Value {
        json!({"real": ["msp::msp_sequence + Scanner", "filter::filter_kmers", "remove_censored_exts(_sharded)", "compress_kmers / compress_kmers_with_hash", "BaseGraph::combine", "BaseGraph::finish (private 1-thread rayon pool)", "compression::compress_graph", "serde hand-off of BaseGraph"],
               "stub": [], "simulated": ["source order", "piece and graph latencies (discrete-event core)", "bucket->shard fold", "at-least-once delivery", "worker budgets (hook H1)", "hand-off streams (SimWriter/SimReader)"]})
    }
}
