//! Runtime k-mer type name -> monomorphised call.

pub use debruijn::kmer::*;

pub type KmerK31 = VarIntKmer<u64, K31>;

/// Call `$f::<K>($args)` for the k-mer type named `$name`.
#[macro_export]
macro_rules! with_k {
    ($name:expr, [$($kt:ident),+], $f:ident, $args:tt) => {
        match $name {
            $( stringify!($kt) => $f::<$crate::ktypes::$kt> $args, )+
            other => panic!("k-mer type {} not in this check's list", other),
        }
    };
}

pub fn k_of(name: &str) -> usize {
    match name {
        "Kmer2" => 2,
        "Kmer3" => 3,
        "Kmer4" => 4,
        "Kmer5" => 5,
        "Kmer6" => 6,
        "Kmer8" => 8,
        "Kmer10" => 10,
        "Kmer12" => 12,
        "Kmer14" => 14,
        "Kmer15" => 15,
        "Kmer16" => 16,
        "Kmer20" => 20,
        "Kmer24" => 24,
        "Kmer30" => 30,
        "KmerK31" => 31,
        "Kmer32" => 32,
        "Kmer40" => 40,
        "Kmer48" => 48,
        "Kmer64" => 64,
        _ => panic!("unknown k-mer type {}", name),
    }
}
