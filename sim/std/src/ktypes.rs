//! Runtime k-mer type name -> monomorphised call.

pub use debruijn::kmer::*;

pub type KmerK31 = VarIntKmer<u64, K31>;

/// Call `$f::<K>($args)` for the k-mer type named `$name`.
#[macro_export]
macro_rules! with_k {
    ($name:expr, [$($kt:ident),+], $f:ident, $args:tt) => {
        match $name {
            $( stringify!($kt) => $f::<$crate::ktypes::$kt> $args, )+
            other => panic!("k-mer type {} not in this check's list", other),
        }
    };
}

pub use simcore::spec::k_of;
