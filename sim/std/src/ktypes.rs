//! Runtime k-mer type name -> monomorphised call.

pub use debruijn::kmer::*;

pub type KmerK31 = VarIntKmer<u64, K31>;

// VarIntKmer types whose K fills the storage integer: legal for users (KmerSize is a public
// trait), never instantiated by the crate's own aliases.
macro_rules! full_width {
    ($name:ident, $k:expr) => {
        #[derive(Debug, Hash, Copy, Clone, Ord, PartialOrd, Eq, PartialEq)]
        pub struct $name;
        impl KmerSize for $name {
            #[inline(always)]
            fn K() -> usize {
                $k
            }
        }
    };
}
full_width!(KF8, 8);
full_width!(KF16, 16);
full_width!(KF32, 32);
full_width!(KF64, 64);
pub type Kmer4v = VarIntKmer<u8, K4>;
pub type Kmer8v = VarIntKmer<u16, KF8>;
pub type Kmer16v = VarIntKmer<u32, KF16>;
pub type Kmer32v = VarIntKmer<u64, KF32>;
pub type Kmer64v = VarIntKmer<u128, KF64>;
// ... and VarIntKmer types whose storage integer is much wider than needed (one wide backing type
// serving every K)
pub type Kmer6w = VarIntKmer<u64, K6>;
pub type Kmer12w = VarIntKmer<u128, K12>;
pub type Kmer20w = VarIntKmer<u128, K20>;

/// Call `$f::<K>($args)` for the k-mer type named `$name`.
#[macro_export]
macro_rules! with_k {
    ($name:expr, [$($kt:ident),+], $f:ident, $args:tt) => {
        match $name {
            $( stringify!($kt) => $f::<$crate::ktypes::$kt> $args, )+
            other => panic!("k-mer type {} not in this check's list", other),
        }
    };
}

pub use simcore::spec::k_of;
pub use simcore::userkmer::{Kmer33u, Kmer7u, Kmer80u};
