//! C05 - k-mer counting/filtering equals reference grouping for any pass count.
//!
//! Thin end of the technique, said plainly: the simulator owns one environment knob, the
//! memory budget, i.e. the pass plan (hook H1 scales the budget unit so that small inputs
//! split into up to 256 passes; the hook's pass counter proves how many passes ran). There
//! is no schedule and no fault in `filter_kmers`. The grouping clauses of the property are
//! the oracle of those runs: a reference grouping over plain vectors.

use boomphf::hashmap::BoomHashMap2;
use debruijn::dna_string::DnaString;
use debruijn::filter::{filter_kmers, CountFilter, CountFilterSet, KmerSummarizer};
use debruijn::{verif_hooks, DnaBytes, Exts, Kmer, Vmer};
use serde::{Deserialize, Serialize};
use serde_json::{json, Value};
use simcore::dna::{self, GenCfg};
use simcore::driver::{Harness, Tier};
use simcore::model::{kmer_bases, kmer_from_bases};
use simcore::rec::{Digest, Rec, Violation};
use simcore::rng::Rng;
use std::cell::Cell;
use std::collections::BTreeMap;
use std::fmt::Debug;

use crate::ktypes::k_of;
use crate::with_k;

pub const KTYPES: [&str; 17] = ["Kmer4", "Kmer5", "Kmer6", "Kmer8", "Kmer10", "Kmer12", "Kmer14", "Kmer15", "Kmer16", "Kmer20", "Kmer24", "Kmer30", "KmerK31", "Kmer32", "Kmer40", "Kmer48", "Kmer64"];

#[derive(Clone, Debug, Serialize, Deserialize, PartialEq)]
pub enum Summ {
    Count(usize),
    CountSet(usize),
    /// returns its observations verbatim; accepts k-mers seen at least n times
    Record(usize),
    /// looks at the FIRST observation only and stops reading (a summarizer may do that); accepts everything
    First,
}

#[derive(Clone, Debug, Serialize, Deserialize)]
pub struct Read {
    #[serde(with = "simcore::dna::serde_seq")]
    pub seq: Vec<u8>,
    pub exts: u8,
    pub label: u32,
}

#[derive(Clone, Debug, Serialize, Deserialize)]
pub struct Case {
    pub ktype: String,
    pub stranded: bool,
    pub report_all: bool,
    pub packed_container: bool,
    /// reads handed over as `DnaStringSlice`s into one backing string, each starting this many
    /// bases after the previous one ended (so slices start at arbitrary offsets inside storage words)
    #[serde(default)]
    pub slice_gap: Option<usize>,
    /// 0 = as chosen above; 1 = `DnaSlice` (borrowed byte slices); 2 = the smallest `Lmer` that holds the longest read
    #[serde(default)]
    pub alt_container: u8,
    pub summ: Summ,
    pub reads: Vec<Read>,
    /// (memory_size argument, bytes per unit via hook H1); the first entry is the one-pass reference
    pub budgets: Vec<(usize, usize)>,
}

// ------------------------------------------------------------------------------------
// reference grouping over plain vectors

#[derive(Clone, Debug, PartialEq)]
pub struct Obs {
    pub exts: u8,
    pub label: u32,
}

pub fn rc_exts(e: u8) -> u8 {
    // reverse (swap nibbles) then complement (bit i <-> bit 3-i in each nibble)
    let sw = (e << 4) | (e >> 4);
    let mut out = 0u8;
    for i in 0..4 {
        if sw & (1 << i) != 0 {
            out |= 1 << (3 - i);
        }
        if sw & (1 << (4 + i)) != 0 {
            out |= 1 << (4 + 3 - i);
        }
    }
    out
}

/// canonical k-mer -> (observations in input order, palindromic?)
pub fn reference_grouping(reads: &[Read], k: usize, stranded: bool) -> BTreeMap<Vec<u8>, (Vec<Obs>, bool)> {
    let mut m: BTreeMap<Vec<u8>, (Vec<Obs>, bool)> = BTreeMap::new();
    for r in reads {
        let n = r.seq.len();
        if n < k {
            continue;
        }
        for i in 0..=n - k {
            let kmer = &r.seq[i..i + k];
            let left = if i == 0 { r.exts & 0x0f } else { 1u8 << r.seq[i - 1] };
            let right = if i + k == n { r.exts >> 4 } else { 1u8 << r.seq[i + k] };
            let e = (right << 4) | left;
            let (key, e, pal) = if stranded {
                (kmer.to_vec(), e, false)
            } else {
                let (c, flip) = dna::canon(kmer);
                let pal = dna::rc(kmer) == kmer;
                (c, if flip { rc_exts(e) } else { e }, pal)
            };
            let ent = m.entry(key).or_insert_with(|| (Vec::new(), pal));
            ent.0.push(Obs { exts: e, label: r.label });
        }
    }
    m
}

struct FirstOnly {
    calls: Cell<usize>,
}

impl KmerSummarizer<u32, (u8, u32)> for FirstOnly {
    fn summarize<K, F: Iterator<Item = (K, Exts, u32)>>(&self, mut items: F) -> (bool, Exts, (u8, u32)) {
        self.calls.set(self.calls.get() + 1);
        match items.next() {
            Some((_, e, d)) => (true, e, (e.val, d)),
            None => (false, Exts::empty(), (0, 0)),
        }
    }
}

struct Recorder {
    min: usize,
    calls: Cell<usize>,
}

impl KmerSummarizer<u32, Vec<(u8, u32)>> for Recorder {
    fn summarize<K, F: Iterator<Item = (K, Exts, u32)>>(&self, items: F) -> (bool, Exts, Vec<(u8, u32)>) {
        self.calls.set(self.calls.get() + 1);
        let mut all = Exts::empty();
        let mut out = Vec::new();
        for (_, e, d) in items {
            all = all.add(e);
            out.push((e.val, d));
        }
        (out.len() >= self.min, all, out)
    }
}

/// What one `filter_kmers` call returned, in plain form.
#[derive(Debug, PartialEq, Clone)]
struct Outcome {
    /// sorted by k-mer: (bases, exts, payload rendered)
    table: Vec<(Vec<u8>, u8, String)>,
    all_kmers: Vec<Vec<u8>>,
    passes: usize,
    summarize_calls: Option<usize>,
    absent_hits: usize,
}

fn plain<K: Kmer, DS: Debug>(t: &BoomHashMap2<K, Exts, DS>, all: &[K]) -> (Vec<(Vec<u8>, u8, String)>, Vec<Vec<u8>>) {
    let mut table: Vec<(Vec<u8>, u8, String)> = t.iter().map(|(k, e, d)| (kmer_bases(k), e.val, format!("{:?}", d))).collect();
    table.sort();
    (table, all.iter().map(kmer_bases).collect())
}

/// `get` must find every present k-mer with the iterated values and no absent one.
fn probe_gets<K: Kmer, DS: Debug>(t: &BoomHashMap2<K, Exts, DS>, table: &[(Vec<u8>, u8, String)]) -> Result<usize, String> {
    let present: std::collections::BTreeSet<&Vec<u8>> = table.iter().map(|x| &x.0).collect();
    if t.len() != table.len() {
        return Err(format!("len() = {} but iteration yields {}", t.len(), table.len()));
    }
    let mut absent = 0;
    for (kb, e, d) in table {
        let k: K = kmer_from_bases(kb);
        match t.get(&k) {
            Some((ge, gd)) if ge.val == *e && format!("{:?}", gd) == *d => {}
            other => return Err(format!("get({}) = {:?}, iteration says ({}, {})", dna::to_ascii(kb), other.map(|x| (x.0.val, format!("{:?}", x.1))), e, d)),
        }
        // absent neighbours: change one base
        for pos in [0usize, kb.len() / 2, kb.len() - 1] {
            let mut nb = kb.clone();
            nb[pos] = (nb[pos] + 1) % 4;
            if !present.contains(&nb) {
                absent += 1;
                let k2: K = kmer_from_bases(&nb);
                if t.get(&k2).is_some() {
                    return Err(format!("get({}) found an absent k-mer", dna::to_ascii(&nb)));
                }
            }
        }
    }
    Ok(absent)
}

fn call<K: Kmer, V: Vmer>(c: &Case, seqs: &[(V, Exts, u32)], budget: (usize, usize)) -> Result<Outcome, Violation> {
    verif_hooks::set_bytes_per_unit(Some(budget.1));
    let r = match &c.summ {
        Summ::Count(n) => {
            let (t, all) = filter_kmers::<K, V, u32, u16, CountFilter>(seqs, &Box::new(CountFilter::new(*n)), c.stranded, c.report_all, budget.0);
            let (table, all_kmers) = plain(&t, &all);
            let absent = probe_gets(&t, &table);
            (table, all_kmers, None, absent)
        }
        Summ::CountSet(n) => {
            let (t, all) =
                filter_kmers::<K, V, u32, Vec<u32>, CountFilterSet<u32>>(seqs, &Box::new(CountFilterSet::new(*n)), c.stranded, c.report_all, budget.0);
            let (table, all_kmers) = plain(&t, &all);
            let absent = probe_gets(&t, &table);
            (table, all_kmers, None, absent)
        }
        Summ::First => {
            let f = Box::new(FirstOnly { calls: Cell::new(0) });
            let (t, all) = filter_kmers::<K, V, u32, (u8, u32), FirstOnly>(seqs, &f, c.stranded, c.report_all, budget.0);
            let (table, all_kmers) = plain(&t, &all);
            let absent = probe_gets(&t, &table);
            (table, all_kmers, Some(f.calls.get()), absent)
        }
        Summ::Record(n) => {
            let rec = Box::new(Recorder {
                min: *n,
                calls: Cell::new(0),
            });
            let (t, all) = filter_kmers::<K, V, u32, Vec<(u8, u32)>, Recorder>(seqs, &rec, c.stranded, c.report_all, budget.0);
            let (table, all_kmers) = plain(&t, &all);
            let absent = probe_gets(&t, &table);
            (table, all_kmers, Some(rec.calls.get()), absent)
        }
    };
    verif_hooks::set_bytes_per_unit(None);
    let passes = verif_hooks::last_passes();
    let absent_hits = r.3.map_err(|e| Violation::new("table-get", "filter_kmers", e))?;
    Ok(Outcome {
        table: r.0,
        all_kmers: r.1,
        passes,
        summarize_calls: r.2,
        absent_hits,
    })
}

fn check_against_model(c: &Case, k: usize, o: &Outcome) -> Result<(), Violation> {
    let m = reference_grouping(&c.reads, k, c.stranded);
    let min = match &c.summ {
        Summ::Count(n) | Summ::CountSet(n) | Summ::Record(n) => *n,
        Summ::First => 0,
    };
    // expected table
    let mut idx = 0usize;
    for (kmer, (obs, pal)) in &m {
        let accepted = obs.len() >= min;
        if !accepted {
            continue;
        }
        let row = match o.table.get(idx) {
            Some(r) if r.0 == *kmer => r,
            other => {
                return Err(Violation::new(
                    "key-set",
                    "filter_kmers",
                    format!(
                        "expected k-mer {} ({} observations, threshold {}) at table position {}, found {:?}",
                        dna::to_ascii(kmer),
                        obs.len(),
                        min,
                        idx,
                        other.map(|r| dna::to_ascii(&r.0))
                    ),
                ))
            }
        };
        idx += 1;
        // extension union
        let union: u8 = obs.iter().fold(0, |a, x| a | x.exts);
        let first_only = matches!(c.summ, Summ::First);
        let union: u8 = if first_only { obs[0].exts } else { union };
        let ok_exts = if first_only {
            row.1 == obs[0].exts || (*pal && row.1 == rc_exts(obs[0].exts))
        } else if *pal {
            // strand of a palindromic observation is undefined: accept either orientation per observation
            let sym = |e: u8| e | rc_exts(e);
            sym(row.1) == sym(union) && obs.iter().all(|x| (x.exts & row.1) == x.exts || (rc_exts(x.exts) & row.1) == rc_exts(x.exts))
        } else {
            row.1 == union
        };
        if !ok_exts {
            return Err(Violation::new(
                "exts",
                "filter_kmers",
                format!("k-mer {}: extensions {:#010b}, reference union of flanking bases {:#010b}", dna::to_ascii(kmer), row.1, union),
            ));
        }
        // payload
        let want = match &c.summ {
            Summ::Count(_) => format!("{:?}", obs.len().min(65535) as u16),
            Summ::CountSet(_) => {
                let mut l: Vec<u32> = obs.iter().map(|x| x.label).collect();
                l.sort();
                l.dedup();
                format!("{:?}", l)
            }
            Summ::First => {
                let w = format!("{:?}", (obs[0].exts, obs[0].label));
                let alt = format!("{:?}", (rc_exts(obs[0].exts), obs[0].label));
                if *pal && row.2 == alt {
                    alt
                } else {
                    w
                }
            }
            Summ::Record(_) => {
                if *pal {
                    // compare labels in order, exts up to orientation
                    let got: Vec<(u8, u32)> = parse_pairs(&row.2);
                    let same = got.len() == obs.len()
                        && got.iter().zip(obs.iter()).all(|(g, w)| g.1 == w.label && (g.0 == w.exts || g.0 == rc_exts(w.exts)));
                    if same {
                        row.2.clone()
                    } else {
                        format!("{:?}", obs.iter().map(|x| (x.exts, x.label)).collect::<Vec<_>>())
                    }
                } else {
                    format!("{:?}", obs.iter().map(|x| (x.exts, x.label)).collect::<Vec<_>>())
                }
            }
        };
        if row.2 != want {
            let lim = |s: &str| s.chars().take(160).collect::<String>();
            return Err(Violation::new(
                "payload",
                "filter_kmers",
                format!("k-mer {}: summary {} but reference over its observations in input order gives {}", dna::to_ascii(kmer), lim(&row.2), lim(&want)),
            ));
        }
    }
    if idx != o.table.len() {
        return Err(Violation::new(
            "key-set",
            "filter_kmers",
            format!("table has {} k-mers, reference accepts {}; first extra: {}", o.table.len(), idx, dna::to_ascii(&o.table[idx].0)),
        ));
    }
    // all_kmers: every distinct k-mer, ascending
    let want_all: Vec<&Vec<u8>> = if c.report_all { m.keys().collect() } else { Vec::new() };
    if o.all_kmers.iter().collect::<Vec<_>>() != want_all {
        return Err(Violation::new(
            "all-kmers",
            "filter_kmers",
            format!("all_kmers has {} entries; reference has {} distinct k-mers in ascending order (report_all={})", o.all_kmers.len(), want_all.len(), c.report_all),
        ));
    }
    if let Some(calls) = o.summarize_calls {
        if calls != m.len() {
            return Err(Violation::new(
                "summarize-calls",
                "filter_kmers",
                format!("summarizer invoked {} times for {} distinct k-mers", calls, m.len()),
            ));
        }
    }
    Ok(())
}

fn parse_pairs(s: &str) -> Vec<(u8, u32)> {
    // "[(1, 2), (3, 4)]"
    let mut out = Vec::new();
    let nums: Vec<u64> = s
        .split(|c: char| !c.is_ascii_digit())
        .filter(|x| !x.is_empty())
        .filter_map(|x| x.parse().ok())
        .collect();
    for p in nums.chunks(2) {
        if p.len() == 2 {
            out.push((p[0] as u8, p[1] as u32));
        }
    }
    out
}

fn run_v<K: Kmer, V: Vmer>(c: &Case, rec: &mut Rec) -> Result<(), Violation> {
    let seqs: Vec<(V, Exts, u32)> = c.reads.iter().map(|r| (V::from_slice(&r.seq), Exts::new(r.exts), r.label)).collect();
    run_seqs::<K, V>(c, &seqs, rec)
}

fn run_seqs<K: Kmer, V: Vmer>(c: &Case, seqs: &[(V, Exts, u32)], rec: &mut Rec) -> Result<(), Violation> {
    let k = K::k();
    let mut reference: Option<Outcome> = None;
    let mut d = Digest::new();
    for r in &c.reads {
        d.bytes(&r.seq);
    }
    rec.env.u64(d.0);
    let mut multi = false;
    for (i, b) in c.budgets.iter().enumerate() {
        let o = call::<K, V>(c, seqs, *b)?;
        rec.choice("budget_passes", o.passes as u64, o.passes == 1);
        rec.ev("filter_kmers", o.table.len() as u64, o.all_kmers.len() as u64);
        rec.add("absent_kmer_lookups", o.absent_hits as u64);
        match o.passes {
            1 => rec.count("passes_1"),
            2 => rec.count("passes_2"),
            3..=4 => rec.count("passes_3_4"),
            5..=16 => rec.count("passes_5_16"),
            17..=64 => rec.count("passes_17_64"),
            65..=127 => rec.count("passes_65_127"),
            128 => rec.count("passes_128"),
            129..=255 => rec.count("passes_129_255"),
            256 => rec.count("passes_256"),
            _ => rec.count("passes_other"),
        }
        if o.passes > 1 {
            multi = true;
        }
        if i == 0 {
            check_against_model(c, k, &o)?;
            reference = Some(o);
        } else {
            let r0 = reference.as_ref().unwrap();
            if o.table != r0.table || o.all_kmers != r0.all_kmers || o.summarize_calls != r0.summarize_calls {
                // say what differs
                let detail = if o.all_kmers != r0.all_kmers {
                    format!("all_kmers: {} entries with {} passes vs {} with {} passes", o.all_kmers.len(), o.passes, r0.all_kmers.len(), r0.passes)
                } else if o.table.len() != r0.table.len() {
                    format!("table: {} k-mers with {} passes vs {} with {} passes", o.table.len(), o.passes, r0.table.len(), r0.passes)
                } else if o.table != r0.table {
                    let j = o.table.iter().zip(r0.table.iter()).position(|(a, b)| a != b).unwrap();
                    format!(
                        "k-mer row {} differs: {:?} with {} passes vs {:?} with {} passes",
                        j,
                        (dna::to_ascii(&o.table[j].0), o.table[j].1, &o.table[j].2.chars().take(80).collect::<String>()),
                        o.passes,
                        (dna::to_ascii(&r0.table[j].0), r0.table[j].1, &r0.table[j].2.chars().take(80).collect::<String>()),
                        r0.passes
                    )
                } else {
                    format!("summarizer calls {:?} vs {:?}", o.summarize_calls, r0.summarize_calls)
                };
                return Err(Violation::new("budget-dependent", "filter_kmers", detail));
            }
            // and against the model too (same oracle, independent of the reference run)
            check_against_model(c, k, &o)?;
        }
    }
    let n_kmers: usize = c.reads.iter().map(|r| r.seq.len().saturating_sub(k - 1)).sum();
    rec.nontrivial = multi && n_kmers >= 2;
    if c.reads.iter().any(|r| r.exts != 0) {
        rec.count("reach_boundary_exts");
    }
    if reference.as_ref().map(|r| r.table.iter().any(|x| x.2 == "65535")).unwrap_or(false) {
        rec.count("reach_saturated_count");
    }
    if c.reads.iter().any(|r| r.seq.len() > 1 << 22) {
        rec.count("reach_bucket_over_2p22_observations");
    }
    if c.reads.iter().any(|r| r.seq.len() > 65_536) && matches!(c.summ, Summ::CountSet(n) | Summ::Record(n) if n > 60_000) {
        rec.count("reach_threshold_next_to_abundant_count");
    }
    Ok(())
}

fn run_slices<K: Kmer>(c: &Case, gap: usize, rec: &mut Rec) -> Result<(), Violation> {
    use debruijn::dna_string::DnaStringSlice;
    // one backing string: gap bases of padding, read, gap bases, read, ...
    let mut backing = DnaString::new();
    let mut spans = Vec::new();
    for (i, r) in c.reads.iter().enumerate() {
        for j in 0..(gap + i % 3) {
            backing.push(((i + j) % 4) as u8);
        }
        let start = backing.len();
        // every third read is stored reverse-complemented and handed over as an rc VIEW
        let as_rc_view = (i + gap) % 3 == 1;
        if as_rc_view {
            for b in dna::rc(&r.seq) {
                backing.push(b);
            }
        } else {
            for b in &r.seq {
                backing.push(*b);
            }
        }
        spans.push((start, backing.len(), as_rc_view));
    }
    backing.push(0);
    let seqs: Vec<(DnaStringSlice, Exts, u32)> = c
        .reads
        .iter()
        .zip(spans.iter())
        .map(|(r, (a, b, v))| {
            use debruijn::Mer;
            let s = backing.slice(*a, *b);
            (if *v { s.rc() } else { s }, Exts::new(r.exts), r.label)
        })
        .collect();
    if spans.iter().any(|x| x.2) {
        rec.count("reach_reads_as_rc_views");
    }
    rec.count("reach_reads_as_slices");
    run_seqs::<K, DnaStringSlice>(c, &seqs, rec)
}

fn run_k<K: Kmer>(c: &Case, rec: &mut Rec) -> Result<(), Violation> {
    if let Some(gap) = c.slice_gap {
        return run_slices::<K>(c, gap, rec);
    }
    let longest = c.reads.iter().map(|r| r.seq.len()).max().unwrap_or(0);
    match c.alt_container {
        1 => {
            let seqs: Vec<(debruijn::DnaSlice, Exts, u32)> = c.reads.iter().map(|r| (debruijn::DnaSlice(&r.seq), Exts::new(r.exts), r.label)).collect();
            rec.count("reach_reads_as_byte_slices");
            return run_seqs::<K, debruijn::DnaSlice>(c, &seqs, rec);
        }
        2 if longest <= 92 => {
            use debruijn::vmer::{Lmer1, Lmer2, Lmer3};
            rec.count("reach_reads_as_lmers");
            return if longest <= 28 {
                run_v::<K, Lmer1>(c, rec)
            } else if longest <= 60 {
                run_v::<K, Lmer2>(c, rec)
            } else {
                run_v::<K, Lmer3>(c, rec)
            };
        }
        _ => {}
    }
    if c.packed_container {
        run_v::<K, DnaString>(c, rec)
    } else {
        run_v::<K, DnaBytes>(c, rec)
    }
}

pub fn size_of_pair(ktype: &str) -> usize {
    fn sz<K: Kmer>() -> usize {
        std::mem::size_of::<(K, u32)>()
    }
    with_k!(ktype, [Kmer4, Kmer5, Kmer6, Kmer8, Kmer10, Kmer12, Kmer14, Kmer15, Kmer16, Kmer20, Kmer24, Kmer30, KmerK31, Kmer32, Kmer40, Kmer48, Kmer64], sz, ())
}

/// Pick (memory_size, unit) so that `kmer_mem / (memory_size*unit) + 1` is about `slices`.
pub fn budget_for(kmer_mem: usize, slices: usize, memory_size: usize) -> (usize, usize) {
    if slices <= 1 {
        return (memory_size, kmer_mem + 1 + 7);
    }
    let max_mem = (kmer_mem / (slices - 1)).max(1);
    let unit = (max_mem / memory_size).max(1);
    (memory_size, unit)
}

pub struct C05;

impl Harness for C05 {
    type Case = Case;
    fn property(&self) -> &'static str {
        "C05"
    }
    fn name(&self) -> &'static str {
        "c05-budget"
    }
    fn engine(&self) -> &'static str {
        "S"
    }
    fn cases(&self, tier: Tier) -> u64 {
        match tier {
            Tier::Quick => 60_000,
            Tier::Thorough => 4_000_000,
        }
    }
    fn gen(&self, rng: &mut Rng, tier: Tier) -> Case {
        let ktype = rng.pick(&KTYPES).to_string();
        let k = k_of(&ktype);
        // rare: one k-mer observed more than 65535 times (saturating count)
        let big = rng.chance(1, if tier == Tier::Thorough { 20_000 } else { 3_000 });
        // rare: more than 65536 reads (per-read indices wider than 16 bits)
        let many = !big && rng.chance(1, if tier == Tier::Thorough { 20_000 } else { 6_000 });
        // rarer still: more than 2^22 observations of one k-mer, i.e. in one bucket of one pass
        let huge = big && rng.chance(1, 3);
        let mut reads: Vec<Read> = Vec::new();
        if many {
            let n = 65_536 + rng.range(1, 400);
            for i in 0..n {
                let len = k + rng.below(3);
                reads.push(Read {
                    seq: dna::random_seq(rng, len, &[0, 1, 2, 3]),
                    exts: 0,
                    label: i as u32,
                });
            }
        } else if big {
            let b = rng.below(4) as u8;
            let n = if huge { (1 << 22) + k + rng.below(40) } else { 65_536 + k + rng.below(40) };
            // the run is followed by another base and a tail: the flank of the LAST observation of
            // the saturated k-mer (beyond the 65535th) is new
            let mut seq = vec![b; n];
            if rng.chance(3, 4) {
                seq.push((b + 1 + rng.below(3) as u8) % 4);
                let tl = k + rng.below(6);
                seq.extend(dna::random_seq(rng, tl, &[0, 1, 2, 3]));
            }
            reads.push(Read { seq, exts: 0, label: 0 });
            reads.push(Read {
                seq: dna::random_seq(rng, k + 5, &[0, 1, 2, 3]),
                exts: 0,
                label: 1,
            });
        } else {
            let cfg = GenCfg {
                k,
                max_reads: 8,
                max_len: (3 * k + 40).min(200),
                allow_short: true,
            };
            let (rs, _) = dna::gen_reads(rng, &cfg);
            let label_mode = rng.below(3);
            for (i, seq) in rs.into_iter().enumerate() {
                let exts = if rng.chance(1, 3) { rng.below(256) as u8 } else { 0 };
                let label = match label_mode {
                    0 => i as u32,
                    1 => rng.below(3) as u32,
                    _ => 7,
                };
                reads.push(Read { seq, exts, label });
            }
            rng.shuffle(&mut reads);
            if rng.chance(1, 200) {
                reads.clear();
            }
        }
        let n_kmers: usize = reads.iter().map(|r| r.seq.len().saturating_sub(k - 1)).sum();
        let kmer_mem = n_kmers * size_of_pair(&ktype);
        let mut budgets = vec![budget_for(kmer_mem, 1, 4)];
        let nb = if huge {
            1
        } else if big || many {
            2
        } else {
            rng.range(1, 4)
        };
        for _ in 0..nb {
            let slices = match if huge { 1 } else { rng.below(8) } {
                0 => 2,
                1 => rng.range(2, 5),
                2 => rng.range(5, 40),
                3 => *rng.pick(&[127usize, 128, 129, 254, 255, 256, 257, 300]),
                4 => rng.range(40, 256),
                5 => rng.range(256, 2000),
                _ => rng.range(2, 300),
            };
            budgets.push(budget_for(kmer_mem, slices, rng.range(1, 4)));
        }
        let thr = match rng.below(6) {
            0 | 1 | 2 => 1,
            3 => 2,
            4 => 3,
            _ => rng.range(0, 6),
        };
        let summ = if big {
            // thresholds next to the true number of observations of the abundant k-mer as well
            let obs = reads[0].seq.iter().take_while(|b| **b == reads[0].seq[0]).count() + 1 - k;
            let near = *rng.pick(&[obs - 1, obs, obs + 1, obs + 2, obs + 40, 1, 2]);
            match rng.below(if huge { 5 } else { 6 }) {
                // CountFilter's count saturates at 65535: thresholds are either small (two times in
                // three: the saturated row and its extensions are then in the table) or safely above
                // the true count (at most ~20 further observations can come from the tails), where
                // "accepted iff observed at least n times" and the saturating count agree: rejected
                0..=2 => Summ::Count(*rng.pick(&[1usize, 1, 2, 3, 1, 2, obs + 50, obs + 1000, usize::MAX])),
                3 | 4 => Summ::CountSet(near),
                _ => Summ::Record(near),
            }
        } else if many {
            if rng.chance(1, 2) {
                Summ::CountSet(1)
            } else {
                Summ::Record(1)
            }
        } else {
            match rng.below(7) {
                0 | 1 => Summ::Count(thr),
                2 | 3 => Summ::CountSet(thr),
                4 | 5 => Summ::Record(thr),
                _ => Summ::First,
            }
        };
        Case {
            ktype,
            stranded: rng.chance(1, 2),
            report_all: rng.chance(1, 2),
            packed_container: !big && rng.chance(1, 2),
            slice_gap: if !big && !many && rng.chance(1, 5) { Some(rng.below(40)) } else { None },
            alt_container: if big || many { 0 } else { *rng.pick(&[0u8, 0, 0, 1, 2]) },
            summ,
            reads,
            budgets,
        }
    }
    fn run(&self, c: &Case, rec: &mut Rec) -> Result<(), Violation> {
        with_k!(
            c.ktype.as_str(),
            [Kmer4, Kmer5, Kmer6, Kmer8, Kmer10, Kmer12, Kmer14, Kmer15, Kmer16, Kmer20, Kmer24, Kmer30, KmerK31, Kmer32, Kmer40, Kmer48, Kmer64],
            run_k,
            (c, rec)
        )
    }
    fn shrink(&self, c: &Case) -> Vec<Case> {
        let mut out = Vec::new();
        let k = k_of(&c.ktype);
        for (a, b) in simcore::spec::removal_ranges(c.reads.len()) {
            let mut x = c.clone();
            x.reads.drain(a..b);
            out.push(x);
        }
        if c.budgets.len() > 2 {
            for i in 1..c.budgets.len() {
                let mut x = c.clone();
                x.budgets.remove(i);
                out.push(x);
            }
        }
        for i in 0..c.reads.len().min(64) {
            let n = c.reads[i].seq.len();
            if n > k {
                for (a, b) in [(0, n / 2 + k / 2), (n / 2 - (k / 2).min(n / 2), n), (1, n), (0, n - 1)] {
                    if b > a && b - a >= k && b - a < n {
                        let mut x = c.clone();
                        x.reads[i].seq = c.reads[i].seq[a..b].to_vec();
                        out.push(x);
                    }
                }
            }
            if c.reads[i].exts != 0 {
                let mut x = c.clone();
                x.reads[i].exts = 0;
                out.push(x);
            }
        }
        if c.report_all {
            let mut x = c.clone();
            x.report_all = false;
            out.push(x);
        }
        if c.packed_container {
            let mut x = c.clone();
            x.packed_container = false;
            out.push(x);
        }
        if c.slice_gap.is_some() {
            let mut x = c.clone();
            x.slice_gap = None;
            out.push(x);
        }
        if c.alt_container != 0 {
            let mut x = c.clone();
            x.alt_container = 0;
            out.push(x);
        }
        // fewer passes: halve the slice count of the last budget
        if let Some(&(ms, unit)) = c.budgets.last() {
            if c.budgets.len() >= 2 {
                let mut x = c.clone();
                let l = x.budgets.len() - 1;
                x.budgets[l] = (ms, unit.saturating_mul(2));
                out.push(x);
            }
        }
        out
    }
    fn rule(&self) -> String {
        "case = (read set with boundary extensions and labels, K type, strandedness, report_all, summarizer, sequence container, list of \
         memory budgets); the first budget gives one pass, the others 2..256 passes via hook H1 (actual pass counts read back from the hook); \
         oracle = reference grouping over plain vectors + identity of results across budgets; non-trivial = at least one call made > 1 pass \
         over >= 2 k-mers; distinct = distinct (input digest, pass-count vector). One environment knob only - no schedule, no fault."
            .into()
    }
    fn components(&self) -> Value {
        json!({"real": ["debruijn::filter::filter_kmers", "CountFilter", "CountFilterSet", "KmerExtsIter", "min_rc_flip / Exts::rc", "boomphf BoomHashMap2 (serial)"],
               "stub": [], "simulated": ["memory budget -> pass plan (hook H1 scales the budget unit)"]})
    }
}

// ------------------------------------------------------------------------------------
// unhooked leg (thorough tier): shipped 10^9 unit, fat labels make the real estimate split

#[derive(Clone)]
struct Fat([u8; 65536]);

/// Run `filter_kmers` with the shipped budget unit on `n_kmers` k-mers carrying 64 KiB
/// labels, so that `size_of::<(K, D1)>()` forces >= 2 passes at memory_size = 1, and
/// compare with memory_size = 64 (one pass).
pub fn unhooked(opts: &simcore::driver::Opts) -> i32 {
    use debruijn::kmer::Kmer16;
    let start = std::time::Instant::now();
    let configs: &[(usize, usize)] = if opts.tier == Tier::Thorough { &[(17_000, 2), (33_000, 3)] } else { &[(16_500, 2)] };
    let mut samples = Vec::new();
    let mut violations = 0;
    let mut evals = 0u64;
    let mut replay_files: Vec<String> = Vec::new();
    for (i, (n_kmers, want_passes)) in configs.iter().enumerate() {
        let mut rng = Rng::new(simcore::rng::derive(opts.seed, "c05-unhooked", i as u64));
        let seq = dna::random_seq(&mut rng, n_kmers + 15, &[0, 1, 2, 3]);
        let seqs: Vec<(DnaBytes, Exts, Fat)> = vec![(DnaBytes(seq.clone()), Exts::empty(), Fat([7u8; 65536]))];
        verif_hooks::set_bytes_per_unit(None);
        let both = simcore::driver::guarded(|| {
            let r1 = filter_kmers::<Kmer16, _, Fat, u16, CountFilter>(&seqs, &Box::new(CountFilter::new(1)), false, true, 1);
            let p1 = verif_hooks::last_passes();
            let r2 = filter_kmers::<Kmer16, _, Fat, u16, CountFilter>(&seqs, &Box::new(CountFilter::new(1)), false, true, 64);
            let p2 = verif_hooks::last_passes();
            (r1, p1, r2, p2)
        });
        let ((t1, a1), p1, (t2, a2), p2) = match both {
            Ok(x) => x,
            Err((loc, msg)) => {
                violations += 1;
                let _ = std::fs::create_dir_all(&opts.replay_dir);
                let path = opts.replay_dir.join(format!("C05-c05-unhooked-{}.json", i));
                let doc = json!({"property": "C05", "check": "c05-unhooked", "engine": "S", "verif_seed": opts.seed, "config_index": i,
                    "violation": {"class": "panic", "site": "filter_kmers (shipped budget unit)", "detail": format!("panicked at {}: {}", loc, msg)},
                    "replay": format!("sim-std c05-unhooked --seed {} --tier {}", opts.seed, opts.tier.as_str())});
                let _ = std::fs::write(&path, serde_json::to_string_pretty(&doc).unwrap());
                println!("violation check=c05-unhooked class=panic: filter_kmers panicked at {}: {}", loc, msg.chars().take(200).collect::<String>());
                println!("VIOLATION property=C05 replay={}", path.display());
                replay_files.push(path.display().to_string());
                samples.push(json!({"input_kmers": n_kmers, "outcome": "panic"}));
                continue;
            }
        };
        evals += 2;
        let (pl1, al1) = plain(&t1, &a1);
        let (pl2, al2) = plain(&t2, &a2);
        let same = pl1 == pl2 && al1 == al2;
        let reads = vec![Read {
            seq: seq.clone(),
            exts: 0,
            label: 0,
        }];
        let m = reference_grouping(&reads, 16, false);
        let model_ok = pl1.len() == m.len() && pl1.iter().zip(m.iter()).all(|(r, (k, (obs, _)))| r.0 == *k && r.2 == format!("{:?}", obs.len() as u16));
        println!(
            "[c05-unhooked] {} k-mers x 64KiB labels: memory_size=1 -> {} passes (wanted >= {}), memory_size=64 -> {} passes; identical={} model_ok={}",
            n_kmers, p1, want_passes, p2, same, model_ok
        );
        samples.push(json!({"input_kmers": n_kmers, "label_bytes": 65536, "passes_at_memory_size_1": p1, "passes_at_memory_size_64": p2, "identical": same, "matches_reference_grouping": model_ok}));
        if p1 < *want_passes {
            eprintln!("HARNESS-ERROR: expected >= {} passes without the hook, got {}", want_passes, p1);
            return 2;
        }
        if !same || !model_ok {
            violations += 1;
            let _ = std::fs::create_dir_all(&opts.replay_dir);
            let path = opts.replay_dir.join(format!("C05-c05-unhooked-{}.json", i));
            let doc = json!({"property": "C05", "check": "c05-unhooked", "engine": "S", "verif_seed": opts.seed, "config_index": i,
                "violation": {"class": "budget-dependent", "site": "filter_kmers (shipped budget unit)", "detail": format!("{} passes vs {} passes differ (identical={}, model_ok={})", p1, p2, same, model_ok)},
                "replay": format!("sim-std c05-unhooked --seed {} --tier {}", opts.seed, opts.tier.as_str())});
            let _ = std::fs::write(&path, serde_json::to_string_pretty(&doc).unwrap());
            println!("VIOLATION property=C05 replay={}", path.display());
            replay_files.push(path.display().to_string());
        }
    }
    let part = json!({
        "check": "c05-unhooked", "property": "C05", "engine": "S", "tier": opts.tier.as_str(), "seed": opts.seed,
        "evaluations": evals, "planned": evals, "nontrivial_runs": configs.len(), "distinct_nontrivial": configs.len(),
        "rule": "filter_kmers with the SHIPPED 10^9-byte budget unit (hook override off) on random reads carrying 64 KiB labels so that the real memory estimate forces >= 2 passes at memory_size=1; compared with memory_size=64 (one pass) and with the reference grouping; distinct = configurations",
        "samples": samples,
        "counters": {"env_unhooked_multi_pass_calls": configs.len()},
        "simulated_time_units": 0, "events": evals, "run_digest": "n/a",
        "wall_s": start.elapsed().as_secs_f64(), "runs_per_hour": 0, "violations": violations,
        "known_findings_hit": [], "replay_files": replay_files,
        "components": {"real": ["filter_kmers with shipped budget arithmetic"], "stub": [], "simulated": ["memory_size argument"]},
    });
    simcore::driver::write_part(opts, "c05-unhooked", &part);
    if violations > 0 {
        1
    } else {
        0
    }
}
