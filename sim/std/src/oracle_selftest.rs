//! Self-test of the canonical graph form used by C04's oracle: it must be invariant under
//! node order and node orientation (so that a legitimately different but equivalent result
//! of the sharded pipeline cannot raise an alarm) and must change when one extension bit,
//! one payload or one node boundary changes (so that it is not vacuous).

use debruijn::graph::BaseGraph;
use debruijn::kmer::{Kmer6, Kmer8};
use debruijn::{Exts, Kmer, Mer};
use simcore::dna;
use simcore::model::{canon_diff, canon_graph, node_bases};
use simcore::pipe::base_graph_counts;
use simcore::rng::{derive, Rng};
use simcore::spec::gen_graph_spec;

fn one<K: Kmer + Send + Sync>(seed: u64, idx: u64) -> Result<(bool, bool), String> {
    let mut rng = Rng::new(derive(seed, "oracle-selftest", idx));
    let mut spec = gen_graph_spec(&mut rng, &["Kmer6"], 8, 120);
    spec.combine_parts = 0;
    let stranded = spec.stranded;
    let g = base_graph_counts::<K>(&spec.reads, stranded, spec.min_count).finish_serial();
    let fmt = |d: &u16| d.to_string();
    let c0 = canon_graph(&g, &fmt);
    let n = g.len();
    if n == 0 {
        return Ok((false, false));
    }
    // same graph: nodes permuted, and (unstranded) about half of them spelled on the other strand
    let perm = rng.perm(n);
    let mut b: BaseGraph<K, u16> = BaseGraph::new(stranded);
    for i in &perm {
        let node = g.get_node(*i);
        let bases = node_bases(&g, *i);
        if !stranded && rng.chance(1, 2) {
            b.add(dna::rc(&bases).iter(), node.exts().rc(), *node.data());
        } else {
            b.add(bases.iter(), node.exts(), *node.data());
        }
    }
    let g2 = b.finish_serial();
    let c1 = canon_graph(&g2, &fmt);
    if let Some((class, d)) = canon_diff(&c0, &c1) {
        return Err(format!("canonical form not invariant under node order/orientation ({}): {}", class, d));
    }
    // sensitivity: flip one extension bit of one node end that has a resolvable neighbour, or a payload
    let victim = rng.below(n);
    let mut b3: BaseGraph<K, u16> = BaseGraph::new(stranded);
    let mut changed = false;
    for i in 0..n {
        let node = g.get_node(i);
        let bases = node_bases(&g, i);
        let mut e = node.exts();
        let mut d = *node.data();
        if i == victim {
            // (a palindromic single-k-mer node's two sides are the same end: dropping one bit there
            // can leave the union unchanged, so alter its payload instead)
            let pal_single = !stranded && bases.len() == K::k() && dna::is_palindrome(&bases);
            if e.val != 0 && !pal_single {
                // drop the lowest set extension bit
                let bit = e.val & e.val.wrapping_neg();
                e = Exts::new(e.val & !bit);
            } else {
                d = d.wrapping_add(1);
            }
            changed = true;
        }
        b3.add(bases.iter(), e, d);
    }
    let g3 = b3.finish_serial();
    let c3 = canon_graph(&g3, &fmt);
    let detected = canon_diff(&c0, &c3).is_some();
    if changed && !detected {
        return Err(format!("canonical form did not change after altering node {} (exts {:?})", victim, g.get_node(victim).exts()));
    }
    let _ = g.get_node(0).sequence().len();
    Ok((true, detected))
}

pub fn run(seed: u64) -> i32 {
    let mut ok = 0;
    let mut sens = 0;
    for idx in 0..3000u64 {
        let r = if idx % 2 == 0 { one::<Kmer6>(seed, idx) } else { one::<Kmer8>(seed, idx) };
        match r {
            Ok((a, b)) => {
                ok += a as u32;
                sens += b as u32;
            }
            Err(e) => {
                println!("[oracle-selftest] case {}: {}", idx, e);
                return 2;
            }
        }
    }
    println!("[oracle-selftest] canonical form invariant under node order/orientation on {} graphs; {} single-node alterations all detected", ok, sens);
    0
}
