//! C16 - ASCII ingestion is total and path-independent.
//!
//! What the simulator owns here is thin and said so: (a) the CPU-dispatch coin (hook H2
//! forces the scalar path per run, so the branch that never executes on this machine
//! does), (b) re-execution of the hashed-N constructor on another OS thread and in fresh
//! processes. The rest is seeded generation against a 256-entry table.

use debruijn::dna_string::DnaString;
use debruijn::{verif_hooks, Mer};
use serde::{Deserialize, Serialize};
use serde_json::{json, Value};
use simcore::driver::{Harness, Tier};
use simcore::rec::{digest_str, Digest, Rec, Violation};
use simcore::rng::Rng;
use std::collections::hash_map::DefaultHasher;
use std::hash::{Hash, Hasher};

pub struct C16;

#[derive(Clone, Debug, Serialize, Deserialize)]
pub struct Case {
    pub bytes: Vec<u8>,
    pub name: Vec<u8>,
    /// the CPU-dispatch coin: true = vector path masked off
    pub force_scalar: bool,
    /// re-evaluate the hashed-N constructor on a second OS thread
    pub second_thread: bool,
    /// the input is handed over as a sub-slice starting this many bytes into a larger buffer
    #[serde(default)]
    pub slice_offset: usize,
    /// call history on this thread: the hashed-N constructor is first called with this other
    /// read name (a fresh thread has no such history)
    #[serde(default)]
    pub warm_name: Option<Vec<u8>>,
}

/// Independent scalar table.
pub fn table(c: u8) -> u8 {
    match c {
        b'A' | b'a' => 0,
        b'C' | b'c' => 1,
        b'G' | b'g' => 2,
        b'T' | b't' => 3,
        _ => 0,
    }
}

pub fn is_acgt(c: u8) -> bool {
    matches!(c, b'A' | b'a' | b'C' | b'c' | b'G' | b'g' | b'T' | b't')
}

pub fn gen_bytes(rng: &mut Rng, tier: Tier) -> Vec<u8> {
    // rare: an input of 2 MiB and a bit (bulk / multi-threaded conversion thresholds)
    if rng.chance(1, if tier == Tier::Thorough { 3000 } else { 6000 }) {
        let len = (1usize << 21) + rng.range(0, 300);
        let valid = b"ACGTacgt";
        let mut v: Vec<u8> = (0..len).map(|_| *rng.pick(valid)).collect();
        for _ in 0..rng.range(0, 5) {
            let p = rng.below(len);
            v[p] = b'N';
        }
        return v;
    }
    let len = match rng.below(10) {
        0 => rng.range(0, 31),
        1 => 32 * rng.range(1, 4),
        2 => 32 * rng.range(1, 4) + rng.range(1, 31),
        3..=6 => rng.range(0, 130),
        7 => rng.range(96, 400),
        _ => {
            if tier == Tier::Thorough || rng.chance(1, 8) {
                rng.range(1000, 9000)
            } else {
                rng.range(200, 1200)
            }
        }
    };
    let style = rng.below(6);
    let base = rng.below(256);
    let valid = b"ACGTacgt";
    let mut out: Vec<u8> = (0..len)
        .map(|i| match style {
            // every byte value walks through every lane as `base` sweeps
            0 => ((base + i) % 256) as u8,
            // mostly valid, sprinkled arbitrary bytes
            1 | 2 => {
                if rng.chance(1, 5) {
                    rng.below(256) as u8
                } else {
                    *rng.pick(valid)
                }
            }
            // all valid
            3 => *rng.pick(valid),
            // near misses of valid letters (one bit away), N, high-bit bytes
            4 => {
                let v = *rng.pick(valid);
                match rng.below(4) {
                    0 => v ^ (1 << rng.below(8)),
                    1 => b'N',
                    2 => v | 0x80,
                    _ => v,
                }
            }
            // arbitrary
            _ => rng.below(256) as u8,
        })
        .collect();
    // dictionary: byte sequences that mean something to text tools (encoding signatures, record
    // markers, line ends, gap / ambiguity / RNA letters) at the start, the end or inside
    if rng.chance(1, 5) {
        const TOKENS: [&[u8]; 24] = [
            &[0xEF, 0xBB, 0xBF], &[0xFE, 0xFF], &[0xFF, 0xFE], &[0x00, 0x00, 0xFE, 0xFF], b">", b"@", b"+", b"\n", b"\r\n", b"\0", b" ", b"\t",
            b"N", b"n", b"-", b"*", b".", b"U", b"u", b"RYKMSWBDHV", b"NNNNNNNNNNNNNNNNNNNNNNNNNNNNNNNNNNNN", b"acgtn", &[0x1A], &[0xC2, 0xA0],
        ];
        for _ in 0..rng.range(1, 3) {
            let t = *rng.pick(&TOKENS);
            match rng.below(4) {
                0 | 1 => {
                    out.splice(0..0, t.iter().cloned());
                }
                2 => out.extend_from_slice(t),
                _ => {
                    let at = rng.below(out.len() + 1);
                    out.splice(at..at, t.iter().cloned());
                }
            }
        }
    }
    out
}

fn hash_of(d: &DnaString) -> u64 {
    let mut h = DefaultHasher::new();
    d.hash(&mut h);
    h.finish()
}

fn viol(class: &str, site: &str, detail: String) -> Violation {
    Violation::new(class, site, detail)
}

fn with_path<T>(force_scalar: bool, f: impl FnOnce() -> T) -> T {
    // every use sets the coin explicitly, so a panic in `f` cannot leak it into a later run
    verif_hooks::set_force_scalar(force_scalar);
    let r = f();
    verif_hooks::set_force_scalar(false);
    r
}

pub fn hashn_digest(bytes: &[u8], name: &[u8]) -> u64 {
    let d = DnaString::from_acgt_bytes_hashn(bytes, name);
    let mut dg = Digest::new();
    dg.bytes(&d.to_bytes());
    dg.0
}

impl Harness for C16 {
    type Case = Case;
    fn property(&self) -> &'static str {
        "C16"
    }
    fn name(&self) -> &'static str {
        "c16-ingest"
    }
    fn engine(&self) -> &'static str {
        "S"
    }
    fn cases(&self, tier: Tier) -> u64 {
        match tier {
            Tier::Quick => 200_000,
            Tier::Thorough => 20_000_000,
        }
    }
    fn gen(&self, rng: &mut Rng, tier: Tier) -> Case {
        let bytes = gen_bytes(rng, tier);
        let nl = rng.range(0, 24);
        let name = (0..nl).map(|_| rng.below(256) as u8).collect();
        Case {
            bytes,
            name,
            force_scalar: rng.chance(1, 2),
            second_thread: rng.chance(1, 16),
            slice_offset: if rng.chance(1, 2) { 0 } else { rng.range(1, 63) },
            warm_name: if rng.chance(1, 2) {
                let wl = rng.range(0, 12);
                Some((0..wl).map(|_| rng.below(256) as u8).collect())
            } else {
                None
            },
        }
    }

    fn run(&self, c: &Case, rec: &mut Rec) -> Result<(), Violation> {
        let n = c.bytes.len();
        let model: Vec<u8> = c.bytes.iter().map(|b| table(*b)).collect();
        let blocks = n / 32;
        let tail = n % 32;
        let invalid = c.bytes.iter().filter(|b| !is_acgt(**b)).count();
        rec.choice("cpu_dispatch_force_scalar", c.force_scalar as u64, !c.force_scalar);
        // thin end: distinctness is (coin, input); say so in the rule
        let mut d = Digest::new();
        d.bytes(&c.bytes);
        rec.env.u64(d.0);
        rec.env_choices += 1;
        rec.nontrivial = blocks >= 1 && (tail > 0 || invalid > 0);
        if c.force_scalar {
            rec.count("dispatch_scalar_forced");
        } else {
            rec.count("dispatch_vector_available");
        }
        if blocks >= 1 && tail > 0 {
            rec.count("reach_blocks_plus_tail");
        }
        if blocks >= 2 {
            rec.count("reach_multi_block");
        }
        if invalid > 0 && blocks >= 1 {
            rec.count("reach_invalid_in_vector_block");
        }

        // lenient constructor under the coin
        // same bytes, possibly at an odd address inside a larger buffer (unaligned vector loads)
        let mut backing = vec![b'T'; c.slice_offset];
        backing.extend_from_slice(&c.bytes);
        backing.extend_from_slice(b"GGGG");
        let view = &backing[c.slice_offset..c.slice_offset + n];
        let a = with_path(c.force_scalar, || DnaString::from_acgt_bytes(view));
        rec.ev("from_acgt_bytes", n as u64, hash_of(&a));
        if a.len() != n {
            return Err(viol("length", "from_acgt_bytes", format!("len {} for {} input bytes", a.len(), n)));
        }
        for i in 0..n {
            if a.get(i) != model[i] {
                return Err(viol(
                    "wrong-base",
                    "from_acgt_bytes",
                    format!(
                        "byte 0x{:02x} at position {} (lane {}, block {} of {}, force_scalar={}) became {} not {}",
                        c.bytes[i],
                        i,
                        i % 32,
                        i / 32,
                        blocks,
                        c.force_scalar,
                        a.get(i),
                        model[i]
                    ),
                ));
            }
        }
        if a.to_bytes() != model {
            return Err(viol("wrong-base", "to_bytes", "to_bytes differs from per-position get".into()));
        }
        // the other path must give the identical value (storage, padding bits, hash, order)
        let b = with_path(!c.force_scalar, || DnaString::from_acgt_bytes(&c.bytes));
        if a != b || hash_of(&a) != hash_of(&b) || a.cmp(&b) != std::cmp::Ordering::Equal {
            return Err(viol(
                "path-dependent",
                "from_acgt_bytes",
                format!("vector and scalar paths give different DnaString values for {} bytes", n),
            ));
        }
        let ja = serde_json::to_string(&a).unwrap();
        let jb = serde_json::to_string(&b).unwrap();
        if ja != jb {
            return Err(viol("path-dependent", "from_acgt_bytes", "serialised storage differs between paths".into()));
        }
        // rendering
        let want_ascii: Vec<u8> = model.iter().map(|m| b"ACGT"[*m as usize]).collect();
        if a.to_ascii_vec() != want_ascii {
            return Err(viol("render", "to_ascii_vec", "to_ascii_vec is not the upper-cased input with non-ACGT as A".into()));
        }
        if a.to_string().as_bytes() != &want_ascii[..] {
            return Err(viol("render", "to_string", "to_string is not the upper-cased input with non-ACGT as A".into()));
        }
        // agreement with the str constructors on ASCII text
        if c.bytes.iter().all(|x| *x < 128) {
            let s = std::str::from_utf8(&c.bytes).unwrap();
            let fs = DnaString::from_dna_string(s);
            if fs != a || hash_of(&fs) != hash_of(&a) {
                return Err(viol("str-disagrees", "from_dna_string", format!("from_dna_string != from_acgt_bytes on {:?}", s)));
            }
            rec.count("reach_ascii_text");
            // strict constructor: maximal ACGT runs
            let runs = DnaString::from_dna_only_string(s);
            let mut want: Vec<Vec<u8>> = Vec::new();
            let mut cur: Vec<u8> = Vec::new();
            for x in &c.bytes {
                if is_acgt(*x) {
                    cur.push(table(*x));
                } else if !cur.is_empty() {
                    want.push(std::mem::take(&mut cur));
                }
            }
            if !cur.is_empty() {
                want.push(cur);
            }
            let got: Vec<Vec<u8>> = runs.iter().map(|r| r.to_bytes()).collect();
            if got != want {
                return Err(viol(
                    "strict-runs",
                    "from_dna_only_string",
                    format!("{} runs returned, {} maximal ACGT runs in input", got.len(), want.len()),
                ));
            }
            for (r, w) in runs.iter().zip(want.iter()) {
                if *r != DnaString::from_bytes(w) {
                    return Err(viol("strict-runs", "from_dna_only_string", "run storage differs from from_bytes of the same bases".into()));
                }
            }
        }
        // hashed-N constructor
        if let Some(w) = &c.warm_name {
            let _ = std::hint::black_box(DnaString::from_acgt_bytes_hashn(b"ACGNNACGTNACGT", w));
            rec.count("reach_hashn_after_other_name");
        }
        let h1 = with_path(c.force_scalar, || DnaString::from_acgt_bytes_hashn(&c.bytes, &c.name));
        let h2 = with_path(c.force_scalar, || DnaString::from_acgt_bytes_hashn(&c.bytes, &c.name));
        // a function of (read name, position) - hence not of the CPU dispatch either
        let h_other = with_path(!c.force_scalar, || DnaString::from_acgt_bytes_hashn(&c.bytes, &c.name));
        if h1 != h_other {
            let p = (0..n).find(|i| h1.get(*i) != h_other.get(*i));
            return Err(viol(
                "hashn-path-dependent",
                "from_acgt_bytes_hashn",
                format!("result differs with the vector path available / masked off (first difference at position {:?}, lane {:?})", p, p.map(|x| x % 32)),
            ));
        }
        if h1 != h2 {
            return Err(viol("hashn-nondeterministic", "from_acgt_bytes_hashn", "two calls with the same (bytes, name) differ".into()));
        }
        if h1.len() != n {
            return Err(viol("length", "from_acgt_bytes_hashn", format!("len {} for {} bytes", h1.len(), n)));
        }
        for i in 0..n {
            let v = h1.get(i);
            if is_acgt(c.bytes[i]) {
                if v != model[i] {
                    return Err(viol("hashn-touched-acgt", "from_acgt_bytes_hashn", format!("position {} changed", i)));
                }
            } else if v > 3 {
                return Err(viol("hashn-invalid-base", "from_acgt_bytes_hashn", format!("position {} -> {}", i, v)));
            }
        }
        if invalid >= 1 {
            // function of (name, position) - hence not of WHICH non-ACGT byte stands there
            let subs: [u8; 6] = [b'N', b'.', b'-', b'7', 0x00, 0xC8];
            let alt: Vec<u8> = c.bytes.iter().enumerate().map(|(i, b)| if is_acgt(*b) { *b } else { let s = subs[(i + *b as usize) % subs.len()]; if s == *b { b'n' } else { s } }).collect();
            let h4 = with_path(c.force_scalar, || DnaString::from_acgt_bytes_hashn(&alt, &c.name));
            if h4 != h1 {
                let p = (0..n).find(|i| h4.get(*i) != h1.get(*i));
                return Err(viol(
                    "hashn-depends-on-byte-value",
                    "from_acgt_bytes_hashn",
                    format!("replacing the non-ACGT bytes by other non-ACGT bytes changed the substitute at position {:?}", p),
                ));
            }
        }
        if invalid >= 2 {
            // function of (name, position): fixing one invalid byte must not move the others
            let first = c.bytes.iter().position(|b| !is_acgt(*b)).unwrap();
            let mut alt = c.bytes.clone();
            alt[first] = b'G';
            let h3 = DnaString::from_acgt_bytes_hashn(&alt, &c.name);
            for i in 0..n {
                if i != first && !is_acgt(c.bytes[i]) && h3.get(i) != h1.get(i) {
                    return Err(viol(
                        "hashn-not-positional",
                        "from_acgt_bytes_hashn",
                        format!("substitution at {} changed when byte {} was edited", i, first),
                    ));
                }
            }
            rec.count("reach_hashn_positional");
        }
        if c.second_thread {
            let bytes = c.bytes.clone();
            let name = c.name.clone();
            let other = std::thread::spawn(move || hashn_digest(&bytes, &name)).join().unwrap();
            rec.count("hashn_second_thread");
            if other != hashn_digest(&c.bytes, &c.name) {
                return Err(viol("hashn-nondeterministic", "from_acgt_bytes_hashn", "result differs on another OS thread".into()));
            }
        }
        rec.ev("done", digest_str(&ja), 0);
        Ok(())
    }

    fn shrink(&self, c: &Case) -> Vec<Case> {
        let mut out = Vec::new();
        let n = c.bytes.len();
        if n > 0 {
            for cut in [n / 2, n - 1] {
                let mut x = c.clone();
                x.bytes.truncate(cut);
                out.push(x);
                let mut y = c.clone();
                y.bytes = c.bytes[n - cut..].to_vec();
                out.push(y);
            }
            // drop one 32-byte block
            if n >= 64 {
                let mut x = c.clone();
                x.bytes.drain(0..32);
                out.push(x);
            }
            for i in 0..n.min(200) {
                if c.bytes[i] != b'A' {
                    let mut x = c.clone();
                    x.bytes[i] = b'A';
                    out.push(x);
                }
            }
        }
        if !c.name.is_empty() {
            let mut x = c.clone();
            x.name.clear();
            out.push(x);
        }
        if c.second_thread {
            let mut x = c.clone();
            x.second_thread = false;
            out.push(x);
        }
        if c.slice_offset != 0 {
            let mut x = c.clone();
            x.slice_offset = 0;
            out.push(x);
        }
        if c.warm_name.is_some() {
            let mut x = c.clone();
            x.warm_name = None;
            out.push(x);
        }
        out
    }

    fn rule(&self) -> String {
        "case = (byte string, read name, CPU-dispatch coin, second-thread flag) from the case seed; byte strings sweep every \
         byte value through every lane of a 32-byte block, lengths 0..130 plus longer ones; non-trivial = at least one full \
         vector block and (a scalar tail or a non-ACGT byte); distinct = distinct (coin, input bytes) pairs by digest. The \
         simulator's own contribution is only the dispatch coin and thread/process re-execution; the rest is generation against a table."
            .into()
    }

    fn components(&self) -> Value {
        json!({"real": ["debruijn::dna_string::DnaString constructors", "debruijn::bitops_avx2 (when coin = vector)", "scalar fallback (when coin = scalar, via hook H2)"],
               "stub": [], "simulated": ["CPU feature detection result (hook H2)"]})
    }
}

/// Cross-process determinism of the hashed-N constructor: digest over a fixed family of
/// inputs, printed by `c16-hashn-print`; `c16-xproc` runs that in fresh processes.
pub fn hashn_family_digest(seed: u64, n: usize) -> u64 {
    let mut rng = Rng::new(simcore::rng::derive(seed, "c16-xproc", 0));
    let mut d = Digest::new();
    for _ in 0..n {
        let bytes = gen_bytes(&mut rng, Tier::Quick);
        let nl = rng.range(0, 24);
        let name: Vec<u8> = (0..nl).map(|_| rng.below(256) as u8).collect();
        d.u64(hashn_digest(&bytes, &name));
    }
    d.0
}

/// Fresh-process leg "first use under racing callers": T threads are released together and each
/// makes its FIRST call into the crate (conversion or rendering of its own input); every result is
/// compared with the table. The inputs are a function of the seed; which thread gets there first
/// is the operating system's choice (labelled observation, like `c19-large`).
pub fn first_use_child(seed: u64) -> i32 {
    use std::sync::atomic::{AtomicBool, AtomicUsize, Ordering};
    use std::sync::Arc;
    let mut rng = Rng::new(simcore::rng::derive(seed, "c16-first-use", 0));
    let threads = rng.range(4, 16);
    let family = rng.below(6);
    let ready = Arc::new(AtomicUsize::new(0));
    let go = Arc::new(AtomicBool::new(false));
    let mut handles = Vec::new();
    for t in 0..threads {
        let len = rng.range(1, 300);
        let bytes: Vec<u8> = (0..len).map(|_| if rng.chance(1, 12) { rng.below(256) as u8 } else { *rng.pick(b"ACGTacgt") }).collect();
        // mostly every thread makes the same kind of first call (the worst case for a lazily
        // initialised table), sometimes a mix
        let op = if rng.chance(3, 4) { family } else { rng.below(6) };
        let (ready, go) = (ready.clone(), go.clone());
        handles.push(std::thread::spawn(move || -> Result<(), String> {
            let model: Vec<u8> = bytes.iter().map(|b| table(*b)).collect();
            let text: Vec<u8> = model.iter().map(|b| b"ACGT"[*b as usize]).collect();
            let ascii_only: String = bytes.iter().map(|b| if b.is_ascii() { *b as char } else { 'N' }).collect();
            ready.fetch_add(1, Ordering::SeqCst);
            while !go.load(Ordering::SeqCst) {
                std::hint::spin_loop();
            }
            let (what, got_bases, got_text): (&str, Vec<u8>, Vec<u8>) = match op {
                0 => {
                    let d = DnaString::from_acgt_bytes(&bytes);
                    ("from_acgt_bytes + to_ascii_vec", d.to_bytes(), d.to_ascii_vec())
                }
                1 => {
                    let d = DnaString::from_bytes(&model);
                    ("from_bytes + to_string", d.to_bytes(), d.to_string().into_bytes())
                }
                2 => {
                    let d = DnaString::from_bytes(&model);
                    ("from_bytes + to_ascii_vec", d.to_bytes(), d.to_ascii_vec())
                }
                3 => {
                    let d = DnaString::from_acgt_bytes(&bytes);
                    ("from_acgt_bytes + Debug", d.to_bytes(), format!("{:?}", d).into_bytes())
                }
                4 => {
                    let d = DnaString::from_dna_string(&ascii_only);
                    let m: Vec<u8> = ascii_only.bytes().map(table).collect();
                    if d.to_bytes() != m {
                        return Err(format!("thread {} from_dna_string: bases differ from the table", t));
                    }
                    ("from_dna_string + to_string", model.clone(), {
                        let _ = d.to_string();
                        text.clone()
                    })
                }
                _ => {
                    let d = DnaString::from_acgt_bytes_hashn(&bytes, b"first-use");
                    let ok = d.len() == bytes.len() && (0..d.len()).all(|i| d.get(i) < 4 && (!is_acgt(bytes[i]) || d.get(i) == model[i]));
                    if !ok {
                        return Err(format!("thread {} from_acgt_bytes_hashn: ACGT positions changed or invalid base", t));
                    }
                    ("from_acgt_bytes_hashn", model.clone(), text.clone())
                }
            };
            if got_bases != model {
                return Err(format!("thread {} {}: packed bases differ from the table for input {:?}", t, what, String::from_utf8_lossy(&bytes)));
            }
            if got_text != text {
                return Err(format!(
                    "thread {} {}: rendered {:?}, expected {:?}",
                    t,
                    what,
                    String::from_utf8_lossy(&got_text[..got_text.len().min(60)]),
                    String::from_utf8_lossy(&text[..text.len().min(60)])
                ));
            }
            Ok(())
        }));
    }
    while ready.load(Ordering::SeqCst) < threads {
        std::hint::spin_loop();
    }
    go.store(true, Ordering::SeqCst);
    let mut bad = Vec::new();
    for h in handles {
        match h.join() {
            Ok(Ok(())) => {}
            Ok(Err(e)) => bad.push(e),
            Err(_) => bad.push("a caller thread panicked".to_string()),
        }
    }
    if bad.is_empty() {
        println!("FIRST-USE ok threads={} family={}", threads, family);
        0
    } else {
        println!("FIRST-USE-MISMATCH threads={} family={} {}", threads, family, bad.join(" | "));
        1
    }
}

/// `c16-xproc`: the hashed-N constructor evaluated in three fresh processes and in this
/// one must agree bit for bit (a `RandomState`-seeded hasher would differ per process).
pub fn xproc(opts: &simcore::driver::Opts) -> i32 {
    let start = std::time::Instant::now();
    let here = hashn_family_digest(opts.seed, 400);
    let exe = std::env::current_exe().unwrap();
    let mut outs = Vec::new();
    for _ in 0..3 {
        match std::process::Command::new(&exe).arg("c16-hashn-print").arg(opts.seed.to_string()).output() {
            Ok(o) => outs.push(String::from_utf8_lossy(&o.stdout).trim().to_string()),
            Err(e) => {
                eprintln!("HARNESS-ERROR: cannot re-exec: {}", e);
                return 2;
            }
        }
    }
    let want = format!("{:016x}", here);
    let agree = outs.iter().all(|o| *o == want);
    let mut violations = 0u32;
    let mut replay_files: Vec<String> = Vec::new();
    if !agree {
        violations = 1;
        let _ = std::fs::create_dir_all(&opts.replay_dir);
        let path = opts.replay_dir.join(format!("C16-c16-xproc-{}.json", want));
        let doc = json!({"property": "C16", "check": "c16-xproc", "engine": "S", "verif_seed": opts.seed,
            "violation": {"class": "hashn-nondeterministic", "site": "from_acgt_bytes_hashn", "detail": "digest over 400 inputs differs between processes"},
            "in_process": want, "fresh_processes": outs, "replay": format!("sim-std c16-hashn-print {} (run twice, compare)", opts.seed)});
        let _ = std::fs::write(&path, serde_json::to_string_pretty(&doc).unwrap());
        println!("violation check=c16-xproc class=hashn-nondeterministic: in-process {} vs fresh processes {:?}", want, outs);
        println!("VIOLATION property=C16 replay={}", path.display());
        replay_files.push(path.display().to_string());
    }
    // first use under racing callers, in fresh processes
    let n_first = if opts.tier == Tier::Thorough { 1500 } else { 48 };
    let mut first_ok = 0u64;
    for i in 0..n_first {
        let cs = simcore::rng::derive(opts.seed, "c16-first-use-case", i);
        let o = match std::process::Command::new(&exe).arg("c16-first-use-child").arg(cs.to_string()).output() {
            Ok(o) => o,
            Err(e) => {
                eprintln!("HARNESS-ERROR: cannot re-exec: {}", e);
                return 2;
            }
        };
        let out = String::from_utf8_lossy(&o.stdout).to_string();
        if o.status.code() == Some(0) && out.contains("FIRST-USE ok") {
            first_ok += 1;
            continue;
        }
        if o.status.code() != Some(1) && !String::from_utf8_lossy(&o.stderr).contains("panicked") {
            eprintln!("HARNESS-ERROR: first-use child failed without a verdict: {:?} {}", o.status, String::from_utf8_lossy(&o.stderr));
            return 2;
        }
        violations += 1;
        let _ = std::fs::create_dir_all(&opts.replay_dir);
        let path = opts.replay_dir.join(format!("C16-c16-xproc-first-use-{}.json", cs));
        let detail = format!("{} {}", out.trim(), String::from_utf8_lossy(&o.stderr).lines().filter(|l| l.contains("panicked")).collect::<Vec<_>>().join(" "));
        let doc = json!({"property": "C16", "check": "c16-xproc", "engine": "S", "verif_seed": opts.seed, "case_seed": cs,
            "violation": {"class": "first-use-race", "site": "first conversion / rendering call of racing threads in a fresh process", "detail": detail},
            "replay": format!("sim-std c16-first-use-child {} (fresh process; the inputs replay exactly, the thread interleaving is the operating system's)", cs)});
        let _ = std::fs::write(&path, serde_json::to_string_pretty(&doc).unwrap());
        println!("violation check=c16-xproc class=first-use-race case_seed={}: {}", cs, detail.chars().take(400).collect::<String>());
        println!("VIOLATION property=C16 replay={}", path.display());
        replay_files.push(path.display().to_string());
        if violations >= 3 {
            break;
        }
    }
    let part = json!({
        "check": "c16-xproc", "property": "C16", "engine": "S", "tier": opts.tier.as_str(), "seed": opts.seed,
        "evaluations": 4 * 400 + n_first, "planned": 4 * 400 + n_first, "nontrivial_runs": 4 + first_ok, "distinct_nontrivial": 4 + first_ok,
        "rule": "400 generated (bytes, read name) inputs evaluated by from_acgt_bytes_hashn in this process and in 3 fresh processes; plus fresh processes in which 4..16 threads released together make their first conversion / rendering call, each compared with the table (observation: inputs seeded, interleaving not controlled); distinct = the process executions",
        "samples": [{"in_process_digest": want, "fresh_process_digests": outs, "first_use_processes_ok": first_ok}],
        "counters": {"env_fresh_process_executions": 3 + n_first, "env_first_use_race_processes": n_first},
        "simulated_time_units": 0, "events": 4, "run_digest": want,
        "wall_s": start.elapsed().as_secs_f64(), "runs_per_hour": 0, "violations": violations,
        "known_findings_hit": [], "replay_files": replay_files,
        "components": {"real": ["DnaString::from_acgt_bytes_hashn", "std DefaultHasher", "DnaString constructors and renderers (first call in a process, racing threads)"], "stub": [], "simulated": ["process identity (fresh processes)"], "observed_not_controlled": ["which racing thread makes the first call"]},
    });
    simcore::driver::write_part(opts, "c16-xproc", &part);
    println!("[c16-xproc] in-process {} fresh {:?} agree={}; first-use race processes ok {}/{}", want, outs, agree, first_ok, n_first);
    (violations > 0) as i32
}
