//! C19, supplementary leg at the size the property names (>= 10^5 nodes, pool sizes 1..16).
//!
//! Engines T and M decide C19 on small graphs, where the simulator chooses the work
//! splitting. Code paths gated on graph size (a parallel fast path that only switches on
//! above some node count, a chunked build) are out of their reach. This leg runs the real
//! `finish()` on a real rayon pool of each chosen size over a one-node-per-k-mer graph of
//! 70k-140k nodes and one of more than 2^20 nodes (quick), six up to 1.1*10^6 (thorough) and compares every answer with
//! `finish_serial()` and with a second run. The schedules here are NOT controlled by the
//! simulator: this is an observation of real executions, kept out of the simulation claims
//! and labelled as such in the evidence; on a tree where the property holds its outcome is
//! schedule-independent, so it cannot raise a false alarm.

use debruijn::graph::{BaseGraph, DebruijnGraph};
use debruijn::kmer::Kmer16;
use debruijn::{Dir, Kmer, Mer, Vmer};
use serde_json::json;
use simcore::dna;
use simcore::driver::{guarded, Opts, Tier};
use simcore::model::{kmer_bases, RefIndex};
use simcore::pipe::count_table;
use simcore::rec::Digest;
use simcore::rng::{derive, Rng};

type K = Kmer16;

fn build_base(seed: u64, n_target: usize, stranded: bool) -> BaseGraph<K, u16> {
    let mut rng = Rng::new(seed);
    // a few long random reads sharing some chunks: ~n_target distinct 16-mers
    let mut reads = Vec::new();
    let mut left = n_target;
    while left > 0 {
        let len = left.min(40_000) + 15;
        reads.push(dna::random_seq(&mut rng, len, &[0, 1, 2, 3]));
        left = left.saturating_sub(40_000);
    }
    let table = count_table::<K>(&reads, stranded, 1);
    let mut b: BaseGraph<K, u16> = BaseGraph::new(stranded);
    for (kmer, exts, _) in table.iter() {
        b.add(kmer.iter(), *exts, 1);
    }
    // a minority of longer nodes (so that the mean node length is K and a bit): unitigs of some
    // separate short random reads
    let extra = (n_target / 60).max(1);
    let longer: Vec<Vec<u8>> = (0..extra).map(|_| { let l = rng.range(17, 48); dna::random_seq(&mut rng, l, &[0, 1, 2, 3]) }).collect();
    let lg = simcore::pipe::base_graph_counts::<K>(&longer, stranded, 1);
    // keep terminal k-mers distinct (the index's precondition): a longer node whose first or last
    // k-mer is already one of the graph's k-mers is left out
    let mut seen: std::collections::HashSet<K> = table.iter().map(|(k, _, _)| *k).collect();
    for i in 0..lg.len() {
        let s = lg.sequences.get(i);
        let (f, l): (K, K) = (s.first_kmer(), s.last_kmer());
        if [f, l, f.rc(), l.rc()].iter().any(|k| seen.contains(k)) {
            continue;
        }
        for k in [f, l, f.rc(), l.rc()] {
            seen.insert(k);
        }
        let bases: Vec<u8> = (0..s.len()).map(|j| s.get(j)).collect();
        b.add(bases.iter(), lg.exts[i], lg.data[i]);
    }
    b
}

fn terminal_kmers_distinct(b: &BaseGraph<K, u16>) -> bool {
    let mut f = std::collections::HashSet::new();
    let mut l = std::collections::HashSet::new();
    for i in 0..b.len() {
        let s = b.sequences.get(i);
        let (a, z): (K, K) = (s.first_kmer(), s.last_kmer());
        if !f.insert(a) || !l.insert(z) {
            return false;
        }
    }
    true
}

/// The same node set relocated so that the packed store straddles base offset 2^31 (32-bit
/// offset arithmetic wraps there). The padding before it is never touched (zero pages).
fn relocate_far(small: &BaseGraph<K, u16>) -> BaseGraph<K, u16> {
    use debruijn::dna_string::{DnaString, PackedDnaStringSet};
    let total: usize = (0..small.len()).map(|i| small.sequences.get(i).len()).sum();
    let first = (1usize << 31) - total / 2 - 7;
    let mut seq = DnaString::blank(first + total + 64);
    let mut start = Vec::with_capacity(small.len());
    let mut length = Vec::with_capacity(small.len());
    let mut pos = first;
    for i in 0..small.len() {
        let s = small.sequences.get(i);
        start.push(pos);
        length.push(s.len() as u32);
        for j in 0..s.len() {
            seq.set_mut(pos + j, s.get(j));
        }
        pos += s.len();
    }
    let mut b: BaseGraph<K, u16> = BaseGraph::new(small.stranded);
    b.sequences = PackedDnaStringSet { sequence: seq, start, length };
    b.exts = small.exts.clone();
    b.data = small.data.clone();
    b
}

/// Digest of every answer of the graph over a reduced probe set; also checks lookups against the reference index.
fn answers(g: &DebruijnGraph<K, u16>, idx: &RefIndex) -> Result<u64, String> {
    let mut d = Digest::new();
    d.u64(g.len() as u64);
    for i in 0..g.len() {
        let n = g.get_node(i);
        let s = n.sequence();
        let (f, l): (K, K) = (s.first_kmer(), s.last_kmer());
        for e in [n.l_edges(), n.r_edges()] {
            for (t, dir, flip) in e {
                d.u64(t as u64 * 4 + simcore::model::dir_u(dir) as u64 * 2 + flip as u64);
            }
            d.u64(u64::MAX);
        }
        for (j, k) in [f, l, f.rc(), l.rc(), f.extend_left((i % 4) as u8), l.extend_right(((i + 1) % 4) as u8)].iter().enumerate() {
            for dir in [Dir::Left, Dir::Right] {
                let got = g.find_link(*k, dir);
                // the reference index is consulted for a sample (it is the slow part)
                if (i + j) % 8 == 0 {
                    let want = idx.find_link(&kmer_bases(k), dir);
                    let same = match (got, want) {
                        (None, None) => true,
                        (Some(a), Some(b)) => a.0 == b.0 && simcore::model::dir_u(a.1) == simcore::model::dir_u(b.1) && a.2 == b.2,
                        _ => false,
                    };
                    if !same {
                        return Err(format!("find_link({}, {}) = {:?} but reference index says {:?}", dna::to_ascii(&kmer_bases(k)), simcore::model::dir_u(dir), got, want));
                    }
                }
                match got {
                    None => d.u64(0),
                    Some((t, dd, fl)) => d.u64(1 + t as u64 * 4 + simcore::model::dir_u(dd) as u64 * 2 + fl as u64),
                }
            }
        }
    }
    Ok(d.0)
}

// ------------------------------------------------------------------------------------
// First use in a fresh process (labelled observation, like the rest of this file): an
// application loads a saved BaseGraph and several threads finish and query it at once. Nothing
// in the process has called into the k-mer code before the threads are released, so lazily
// initialised shared state behind `finish()` / `find_link` (a table, a cache) is first touched by
// racing callers. The parent computes the expected answers from `finish_serial()`.

const FIRST_USE_KTYPES: [&str; 10] = ["Kmer8", "Kmer16", "Kmer20", "Kmer32", "Kmer40", "Kmer48", "Kmer64", "Kmer12w", "Kmer20w", "Kmer33u"];

fn first_use_prepare<KK: Kmer + Send + Sync + serde::Serialize + serde::de::DeserializeOwned>(spec: &simcore::spec::GraphSpec, threads: usize, mode: u64) -> Option<serde_json::Value> {
    let base: BaseGraph<KK, u16> = simcore::pipe::base_graph_for::<KK>(spec);
    if base.len() < 2 {
        return None;
    }
    let serial = base.clone().finish_serial();
    let p = simcore::model::probes(&serial, &[]);
    let want = simcore::model::transcript(&serial, &p);
    let want_links: Vec<String> = p.iter().map(|k| format!("{:?} {:?}", serial.find_link(*k, Dir::Left), serial.find_link(*k, Dir::Right))).collect();
    Some(json!({"ktype": spec.ktype, "threads": threads, "mode": mode, "want_links": want_links, "base": serde_json::to_string(&base).unwrap(), "probes": serde_json::to_string(&p).unwrap(), "want": want}))
}

fn first_use_child_k<KK: Kmer + Send + Sync + serde::Serialize + serde::de::DeserializeOwned + 'static>(doc: &serde_json::Value) -> i32 {
    use std::sync::atomic::{AtomicBool, AtomicUsize, Ordering};
    use std::sync::Arc;
    // (as text: serde_json::Value cannot hold the u128 of the wide k-mer types)
    let base: BaseGraph<KK, u16> = serde_json::from_str(doc["base"].as_str().unwrap_or("")).expect("base graph");
    let probes: Arc<Vec<KK>> = Arc::new(serde_json::from_str(doc["probes"].as_str().unwrap_or("")).expect("probes"));
    let want: Arc<Vec<String>> = Arc::new(serde_json::from_value(doc["want"].clone()).expect("transcript"));
    let want_links: Arc<Vec<String>> = Arc::new(serde_json::from_value(doc["want_links"].clone()).expect("link lookups"));
    let threads = doc["threads"].as_u64().unwrap_or(4) as usize;
    let ready = Arc::new(AtomicUsize::new(0));
    let go = Arc::new(AtomicBool::new(false));
    // mode 1: the graph is finished once by the main thread (index construction only hashes) and
    // shared; the racing threads' first action is the lookups. mode 0: every thread finishes its own
    // copy first.
    let shared_mode = doc["mode"].as_u64().unwrap_or(0) == 1;
    let shared: Option<Arc<(DebruijnGraph<KK, u16>, DebruijnGraph<KK, u16>)>> = if shared_mode { Some(Arc::new((base.clone().finish(), base.clone().finish_serial()))) } else { None };
    let mut hs = Vec::new();
    for t in 0..threads {
        let (b, probes, want, want_links, ready, go, shared) = (base.clone(), probes.clone(), want.clone(), want_links.clone(), ready.clone(), go.clone(), shared.clone());
        hs.push(std::thread::spawn(move || -> Result<(), String> {
            ready.fetch_add(1, Ordering::SeqCst);
            while !go.load(Ordering::SeqCst) {
                std::hint::spin_loop();
            }
            let own;
            let g: &DebruijnGraph<KK, u16> = match &shared {
                Some(s) => {
                    if t % 2 == 0 {
                        &s.0
                    } else {
                        &s.1
                    }
                }
                None => {
                    own = if t % 2 == 0 { b.finish() } else { b.finish_serial() };
                    &own
                }
            };
            // lookups first (the part of the query path that canonicalises), then the full transcript
            // every thread starts at another probe, and at one whose answer goes through the
            // reverse complement (probes come in groups of first, last, rc(first), rc(last), ...)
            let n = probes.len();
            for j in 0..n {
                let i = (2 + 4 * t + j) % n;
                let k = probes[i];
                let got = format!("{:?} {:?}", g.find_link(k, Dir::Left), g.find_link(k, Dir::Right));
                if got != want_links[i] {
                    return Err(format!("thread {} ({}), query #{} of this thread, probe {}: find_link gave {} but the serially finished graph gives {}", t, if t % 2 == 0 { "finish" } else { "finish_serial" }, j, i, got, want_links[i]));
                }
            }
            let got = simcore::model::transcript(g, &probes);
            match simcore::model::first_diff(&got, &want) {
                None => Ok(()),
                Some(d) => Err(format!("thread {} ({}): {}", t, if t % 2 == 0 { "finish" } else { "finish_serial" }, d)),
            }
        }));
    }
    while ready.load(Ordering::SeqCst) < threads {
        std::hint::spin_loop();
    }
    go.store(true, Ordering::SeqCst);
    let mut bad = Vec::new();
    for h in hs {
        match h.join() {
            Ok(Ok(())) => {}
            Ok(Err(e)) => bad.push(e),
            Err(_) => bad.push("a caller thread panicked".into()),
        }
    }
    if bad.is_empty() {
        println!("FIRST-USE ok threads={}", threads);
        0
    } else {
        println!("FIRST-USE-MISMATCH {}", bad.join(" | ").chars().take(600).collect::<String>());
        1
    }
}

macro_rules! first_use_dispatch {
    ($name:expr, $f:ident, $args:tt) => {{
        use crate::ktypes::*;
        match $name {
            "Kmer8" => $f::<Kmer8> $args,
            "Kmer16" => $f::<Kmer16> $args,
            "Kmer20" => $f::<Kmer20> $args,
            "Kmer32" => $f::<Kmer32> $args,
            "Kmer40" => $f::<Kmer40> $args,
            "Kmer48" => $f::<Kmer48> $args,
            "Kmer64" => $f::<Kmer64> $args,
            "Kmer12w" => $f::<Kmer12w> $args,
            "Kmer20w" => $f::<Kmer20w> $args,
            _ => $f::<Kmer33u> $args,
        }
    }};
}

pub fn first_use_child(path: &str) -> i32 {
    let doc: serde_json::Value = match std::fs::read_to_string(path).ok().and_then(|t| serde_json::from_str(&t).ok()) {
        Some(d) => d,
        None => {
            eprintln!("HARNESS-ERROR: cannot read {}", path);
            return 2;
        }
    };
    let kt = doc["ktype"].as_str().unwrap_or("").to_string();
    first_use_dispatch!(kt.as_str(), first_use_child_k, (&doc))
}

/// Stand-alone run of the first-use leg (diagnostics): `sim-std c19-first-use [--seed N] [--tier T]`.
pub fn first_use_only(opts: &Opts) -> i32 {
    match first_use_leg(opts) {
        Ok((ran, ok, bad)) => {
            println!("[c19-first-use] {} processes, {} identical", ran, ok);
            for (cs, d) in &bad {
                println!("  case_seed={} {}", cs, d.chars().take(300).collect::<String>());
            }
            !bad.is_empty() as i32
        }
        Err(e) => {
            println!("HARNESS-ERROR: {}", e);
            2
        }
    }
}

/// Returns (processes run, processes ok, violations as (case seed, detail)) or Err(harness problem).
fn first_use_leg(opts: &Opts) -> Result<(u64, u64, Vec<(u64, String)>), String> {
    let n = if opts.tier == Tier::Thorough { 600 } else { 40 };
    let exe = std::env::current_exe().map_err(|e| e.to_string())?;
    let dir = std::env::var("VERIF_TMP").map(std::path::PathBuf::from).unwrap_or_else(|_| std::env::temp_dir());
    let _ = std::fs::create_dir_all(&dir);
    let (mut ran, mut ok, mut bad) = (0u64, 0u64, Vec::new());
    for i in 0..n {
        let cs = derive(opts.seed, "c19-first-use", i);
        let mut rng = Rng::new(cs);
        let kt = *rng.pick(&FIRST_USE_KTYPES);
        let mut spec = simcore::spec::gen_graph_spec(&mut rng, &[kt], 8, 160);
        if rng.chance(3, 4) {
            spec.stranded = false;
        }
        let threads = rng.range(3, 12);
        let mode = if rng.chance(2, 3) { 1u64 } else { 0 };
        let doc = match first_use_dispatch!(kt, first_use_prepare, (&spec, threads, mode)) {
            Some(d) => d,
            None => continue,
        };
        let path = dir.join(format!("c19-first-use-{}-{}.json", std::process::id(), i));
        std::fs::write(&path, serde_json::to_string(&doc).unwrap()).map_err(|e| e.to_string())?;
        let o = std::process::Command::new(&exe).arg("c19-first-use-child").arg(&path).output().map_err(|e| e.to_string())?;
        let _ = std::fs::remove_file(&path);
        ran += 1;
        let out = String::from_utf8_lossy(&o.stdout).to_string();
        let err = String::from_utf8_lossy(&o.stderr).to_string();
        if o.status.code() == Some(0) && out.contains("FIRST-USE ok") {
            ok += 1;
        } else if o.status.code() == Some(1) || err.contains("panicked") {
            bad.push((cs, format!("{} {}", out.trim(), err.lines().filter(|l| l.contains("panicked")).collect::<Vec<_>>().join(" "))));
            if bad.len() >= 3 {
                break;
            }
        } else {
            return Err(format!("first-use child ended with {:?} and no verdict: {}", o.status, err.chars().take(300).collect::<String>()));
        }
    }
    Ok((ran, ok, bad))
}

pub fn run(opts: &Opts) -> i32 {
    let start = std::time::Instant::now();
    // watchdog: a finish() that never returns (e.g. the index construction cycling) is a violation
    let progress = std::sync::Arc::new(std::sync::atomic::AtomicU64::new(0));
    {
        let progress = progress.clone();
        let replay_dir = opts.replay_dir.clone();
        let (seed, tier) = (opts.seed, opts.tier.as_str());
        let opts2 = opts.clone();
        std::thread::spawn(move || {
            let limit: u64 = std::env::var("VERIF_HANG_LIMIT_S").ok().and_then(|v| v.parse().ok()).unwrap_or(600);
            let mut last = (0u64, std::time::Instant::now());
            loop {
                std::thread::sleep(std::time::Duration::from_millis(500));
                let p = progress.load(std::sync::atomic::Ordering::Relaxed);
                if p == u64::MAX {
                    return;
                }
                if p != last.0 {
                    last = (p, std::time::Instant::now());
                } else if last.1.elapsed().as_secs() > limit {
                    let _ = std::fs::create_dir_all(&replay_dir);
                    let path = replay_dir.join("C19-c19-large-hang.json");
                    let doc = json!({"property": "C19", "check": "c19-large", "engine": "S", "verif_seed": seed,
                        "violation": {"class": "hang", "site": "BaseGraph::finish on a real pool (large graph)", "detail": format!("no progress for {} s after step {}", limit, p)},
                        "replay": format!("sim-std c19-large --seed {} --tier {}", seed, tier)});
                    let _ = std::fs::write(&path, serde_json::to_string_pretty(&doc).unwrap());
                    println!("violation check=c19-large class=hang: finish() made no progress for {} s", limit);
                    println!("VIOLATION property=C19 replay={}", path.display());
                    let part = json!({"check": "c19-large", "property": "C19", "engine": "S (real pool; schedules NOT simulator-controlled)", "tier": tier, "seed": seed,
                        "evaluations": p, "planned": p, "nontrivial_runs": 0, "distinct_nontrivial": 0, "rule": "aborted by the hang watchdog", "samples": [], "counters": {},
                        "violations": 1, "replay_files": [path.display().to_string()], "known_findings_hit": [], "components": {}, "wall_s": 0});
                    simcore::driver::write_part(&opts2, "c19-large", &part);
                    std::process::exit(1);
                }
            }
        });
    }
    // quick: one graph at the size the property names plus one beyond 2^20 nodes (fewer pool sizes);
    // thorough: six graphs, the last beyond 2^20 nodes, every pool size
    let n_cases = if opts.tier == Tier::Thorough { 6 } else { 2 };
    let mut samples = Vec::new();
    let mut violations = 0;
    let mut evals = 0u64;
    let mut replay_files: Vec<String> = Vec::new();
    let mut pools_seen = std::collections::BTreeSet::new();
    for ci in 0..n_cases {
        let cs = derive(opts.seed, "c19-large", ci);
        let mut rng = Rng::new(cs);
        let million = (opts.tier == Tier::Thorough && ci == 5) || (opts.tier == Tier::Quick && ci == 1);
        let n_target = if million {
            (1usize << 20) + rng.range(1_001, 90_000)
        } else if opts.tier == Tier::Thorough && ci >= 4 {
            rng.range(400_000, 1_000_000)
        } else {
            rng.range(70_000, 140_000)
        };
        let stranded = rng.chance(1, 2);
        let mut base = build_base(cs, n_target, stranded);
        {
            // terminal k-mers must be distinct (precondition of the index); re-draw if the random extras collide
            let mut tries = 0;
            while tries < 5 && !terminal_kmers_distinct(&base) {
                tries += 1;
                base = build_base(cs.wrapping_add(tries), n_target, stranded);
            }
        }
        let serial = match guarded(|| base.clone().finish_serial()) {
            Ok(g) => g,
            Err((loc, msg)) => {
                violations += 1;
                println!("violation check=c19-large class=panic: finish_serial() on {} nodes panicked at {}: {}", base.len(), loc, msg.chars().take(160).collect::<String>());
                let _ = std::fs::create_dir_all(&opts.replay_dir);
                let path = opts.replay_dir.join(format!("C19-c19-large-{}.json", cs));
                let _ = std::fs::write(&path, serde_json::to_string_pretty(&json!({"property": "C19", "check": "c19-large", "engine": "S", "verif_seed": opts.seed, "case_seed": cs,
                    "violation": {"class": "panic", "site": "BaseGraph::finish_serial (large graph)", "detail": format!("{} at {}", msg, loc)},
                    "replay": format!("sim-std c19-large --seed {} --tier {}", opts.seed, opts.tier.as_str())})).unwrap());
                println!("VIOLATION property=C19 replay={}", path.display());
                replay_files.push(path.display().to_string());
                continue;
            }
        };
        let idx = RefIndex::build(&serial).expect("distinct terminal k-mers");
        let want = match answers(&serial, &idx) {
            Ok(d) => d,
            Err(e) => {
                violations += 1;
                println!("violation check=c19-large class=lookup-inexact (serial build): {}", e);
                0
            }
        };
        let want_json = simcore::rec::digest_str(&serde_json::to_string(&serial).unwrap());
        let sizes: Vec<usize> = if opts.tier == Tier::Thorough {
            (1..=16).collect()
        } else if million {
            vec![rng.range(3, 15), 16]
        } else {
            vec![1, rng.range(2, 4), rng.range(5, 12), 16]
        };
        let reps = if million && opts.tier == Tier::Quick { 1 } else { 2 };
        let mut case_bad: Option<String> = None;
        for sz in &sizes {
            pools_seen.insert(*sz);
            let pool = rayon::ThreadPoolBuilder::new().num_threads(*sz).build().expect("pool");
            for rep in 0..reps {
                let b = base.clone();
                let g = match guarded(|| pool.install(|| b.finish())) {
                    Ok(g) => g,
                    Err((loc, msg)) => {
                        case_bad = Some(format!("finish() panicked with pool size {} at {}: {}", sz, loc, msg));
                        break;
                    }
                };
                evals += 1;
                progress.fetch_add(1, std::sync::atomic::Ordering::Relaxed);
                match answers(&g, &idx) {
                    Ok(d) if d == want => {}
                    Ok(_) => {
                        case_bad = Some(format!("finish() on a {}-thread pool (run {}) answers differently from finish_serial() on {} nodes", sz, rep, g.len()));
                        break;
                    }
                    Err(e) => {
                        case_bad = Some(format!("pool size {}: {}", sz, e));
                        break;
                    }
                }
                let j = simcore::rec::digest_str(&serde_json::to_string(&g).unwrap());
                if j != want_json {
                    case_bad = Some(format!("finish() on a {}-thread pool (run {}) serialises to a different index than finish_serial()", sz, rep));
                    break;
                }
            }
            if case_bad.is_some() {
                break;
            }
        }
        println!(
            "[c19-large] case {}: {} nodes (stranded={}), pool sizes {:?} x{} runs vs serial: {}",
            ci,
            serial.len(),
            stranded,
            sizes,
            reps,
            case_bad.clone().unwrap_or_else(|| "identical".into())
        );
        samples.push(json!({"case_seed": cs, "nodes": serial.len(), "stranded": stranded, "pool_sizes": sizes, "outcome": case_bad.clone().unwrap_or_else(|| "identical".into())}));
        if let Some(detail) = case_bad {
            violations += 1;
            let _ = std::fs::create_dir_all(&opts.replay_dir);
            let path = opts.replay_dir.join(format!("C19-c19-large-{}.json", cs));
            let doc = json!({"property": "C19", "check": "c19-large", "engine": "S", "verif_seed": opts.seed, "case_index": ci, "case_seed": cs,
                "violation": {"class": "parallel-vs-serial", "site": "BaseGraph::finish on a real pool (large graph)", "detail": detail},
                "note": "schedules of this leg are not simulator-controlled; replay re-runs the same graph and pool sizes",
                "replay": format!("sim-std c19-large --seed {} --tier {}", opts.seed, opts.tier.as_str())});
            let _ = std::fs::write(&path, serde_json::to_string_pretty(&doc).unwrap());
            println!("violation check=c19-large class=parallel-vs-serial: {}", detail);
            println!("VIOLATION property=C19 replay={}", path.display());
            replay_files.push(path.display().to_string());
        }
    }
    // ---- far-offset case: a modest node set whose packed store straddles base offset 2^31
    {
        let cs = derive(opts.seed, "c19-far", 0);
        let small = build_base(cs, 3_000, false);
        let base = relocate_far(&small);
        let mut outcome = "identical".to_string();
        let serial = match guarded(|| base.clone().finish_serial()) {
            Ok(g) => g,
            Err((loc, msg)) => {
                outcome = format!("finish_serial() over a store straddling base offset 2^31 panicked at {}: {}", loc, msg.chars().take(160).collect::<String>());
                // fall back to the small graph so that the bookkeeping below has something to hold
                small.clone().finish_serial()
            }
        };
        let idx = RefIndex::build(&serial).expect("distinct terminal k-mers");
        match if outcome == "identical" { answers(&serial, &idx) } else { Err(outcome.clone()) } {
            Ok(want) => {
                for sz in [2usize, 16] {
                    let pool = rayon::ThreadPoolBuilder::new().num_threads(sz).build().expect("pool");
                    let b = base.clone();
                    match guarded(|| pool.install(|| b.finish())) {
                        Ok(g) => {
                            evals += 1;
                            progress.fetch_add(1, std::sync::atomic::Ordering::Relaxed);
                            match answers(&g, &idx) {
                                Ok(d) if d == want => {}
                                Ok(_) => outcome = format!("finish() on a {}-thread pool answers differently from finish_serial() (store straddling offset 2^31)", sz),
                                Err(e) => outcome = format!("pool size {}: {}", sz, e),
                            }
                        }
                        Err((loc, msg)) => outcome = format!("finish() panicked at {}: {}", loc, msg),
                    }
                }
            }
            Err(e) => outcome = format!("serial build over a store straddling base offset 2^31: {}", e),
        }
        println!("[c19-large] far-offset case: {} nodes at packed offsets around 2^31: {}", serial.len(), outcome);
        samples.push(json!({"case_seed": cs, "nodes": serial.len(), "store": "straddles base offset 2^31", "outcome": outcome}));
        if outcome != "identical" {
            violations += 1;
            let _ = std::fs::create_dir_all(&opts.replay_dir);
            let path = opts.replay_dir.join(format!("C19-c19-large-far-{}.json", cs));
            let doc = json!({"property": "C19", "check": "c19-large", "engine": "S", "verif_seed": opts.seed, "case_seed": cs,
                "violation": {"class": "lookup-inexact", "site": "finish / find_link on a packed store beyond 2^31 bases", "detail": outcome},
                "replay": format!("sim-std c19-large --seed {} --tier {}", opts.seed, opts.tier.as_str())});
            let _ = std::fs::write(&path, serde_json::to_string_pretty(&doc).unwrap());
            println!("violation check=c19-large class=lookup-inexact: {}", doc["violation"]["detail"]);
            println!("VIOLATION property=C19 replay={}", path.display());
            replay_files.push(path.display().to_string());
        }
    }
    // ---- first use in a fresh process, racing callers
    let mut first_use = (0u64, 0u64);
    let leg = match guarded(|| first_use_leg(opts)) {
        Ok(r) => r,
        Err((loc, msg)) => Err(format!("panicked at {}: {}", loc, msg)),
    };
    match leg {
        Ok((ran, ok, bad)) => {
            first_use = (ran, ok);
            evals += ran;
            println!("[c19-large] first-use leg: {} fresh processes (3..12 threads finishing and querying a loaded graph at once), {} identical to finish_serial()", ran, ok);
            samples.push(json!({"first_use_processes": ran, "identical": ok}));
            for (cs, detail) in bad {
                violations += 1;
                let _ = std::fs::create_dir_all(&opts.replay_dir);
                let path = opts.replay_dir.join(format!("C19-c19-large-first-use-{}.json", cs));
                let doc = json!({"property": "C19", "check": "c19-large", "engine": "S", "verif_seed": opts.seed, "case_seed": cs,
                    "violation": {"class": "first-use-race", "site": "finish / find_link by racing threads in a fresh process", "detail": detail},
                    "note": "the graph and the probes replay exactly; which thread gets there first is the operating system's choice",
                    "replay": format!("sim-std c19-large --seed {} --tier {}", opts.seed, opts.tier.as_str())});
                let _ = std::fs::write(&path, serde_json::to_string_pretty(&doc).unwrap());
                println!("violation check=c19-large class=first-use-race case_seed={}: {}", cs, doc["violation"]["detail"].as_str().unwrap_or("").chars().take(400).collect::<String>());
                println!("VIOLATION property=C19 replay={}", path.display());
                replay_files.push(path.display().to_string());
            }
        }
        Err(e) => {
            println!("HARNESS-ERROR: c19-large first-use leg: {}", e);
            progress.store(u64::MAX, std::sync::atomic::Ordering::Relaxed);
            return 2;
        }
    }
    let part = json!({
        "check": "c19-large", "property": "C19", "engine": "S (real pool; schedules NOT simulator-controlled)", "tier": opts.tier.as_str(), "seed": opts.seed,
        "evaluations": evals, "planned": evals, "nontrivial_runs": evals, "distinct_nontrivial": pools_seen.len() * n_cases as usize,
        "rule": "supplementary observation, not simulation: one-node-per-k-mer graphs of 70k-140k nodes and one of more than 2^20 nodes (thorough: six graphs up to 1.1*10^6) finished on real rayon pools (quick: 4 sizes incl. 1 and 16, two sizes for the 2^20 graph; thorough: every size 1..16), twice each (once for the quick 2^20 graph), compared with finish_serial() (every edge list, 12 link lookups per node, serialised index); plus fresh processes in which 3..12 threads are released together and finish()/finish_serial() and query a graph loaded from its serialised form (first use of the k-mer code by racing callers), each compared with the parent's finish_serial() transcript; distinct = (graph, pool size) pairs",
        "samples": samples,
        "counters": {"env_real_pool_finish_runs": evals, "env_pool_sizes_used": pools_seen.len(), "env_first_use_race_processes": first_use.0, "first_use_processes_identical": first_use.1},
        "simulated_time_units": 0, "events": evals, "run_digest": "n/a",
        "wall_s": start.elapsed().as_secs_f64(), "search_wall_s": start.elapsed().as_secs_f64(), "runs_per_hour": 0, "violations": violations,
        "known_findings_hit": [], "replay_files": replay_files,
        "components": {"real": ["BaseGraph::finish on real rayon pools", "boomphf (unmodified)", "finish_serial"], "stub": [], "simulated": [], "limits": ["uncontrolled schedules: observation, not simulation; reaches size-gated code paths that engines T/M cannot"]},
    });
    progress.store(u64::MAX, std::sync::atomic::Ordering::Relaxed);
    simcore::driver::write_part(opts, "c19-large", &part);
    if violations > 0 {
        1
    } else {
        0
    }
}
