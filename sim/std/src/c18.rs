//! C18 - node k-mer iteration obeys the iterator contract (engine S part).
//!
//! (a) `c18-consumer`: a simulated external consumer drives `NodeKmerIter` with a seeded
//!     history of next()/nth(n) calls; model = VecDeque of the node's k-mers.
//! (b) `c18-mphf-serial`: the real serial consumer, `Mphf::from_chunked_iterator`, driven
//!     over the monitoring wrapper with a seeded gamma; every call it makes is checked.
//! The parallel consumer runs under engines T and M.

use boomphf::Mphf;
use debruijn::graph::DebruijnGraph;
use debruijn::Kmer;
use serde::{Deserialize, Serialize};
use serde_json::{json, Value};
use simcore::dna;
use simcore::driver::{guarded, Harness, Tier};
use simcore::model::kmer_bases;
use simcore::monitor::{node_kmers_model, Mon};
use simcore::pipe::base_graph_with_provenance;
use simcore::rec::{Rec, Violation};
use simcore::rng::Rng;
use std::collections::BTreeSet;

use crate::with_k;

pub const KTYPES: [&str; 17] = ["Kmer4", "Kmer5", "Kmer6", "Kmer8", "Kmer10", "Kmer12", "Kmer14", "Kmer15", "Kmer16", "Kmer20", "Kmer24", "Kmer30", "KmerK31", "Kmer32", "Kmer40", "Kmer48", "Kmer64"];

/// k-mer types below the pipeline's minimum (K >= 4): only reachable through `BaseGraph::add`
pub const TINY_KTYPES: [&str; 2] = ["Kmer2", "Kmer3"];

/// user-declared VarIntKmer types whose K fills the storage integer, or whose storage integer is
/// much wider than 2K bits
pub const FULL_WIDTH_KTYPES: [&str; 11] = ["Kmer4v", "Kmer8v", "Kmer16v", "Kmer32v", "Kmer64v", "Kmer6w", "Kmer12w", "Kmer20w", "Kmer7u", "Kmer33u", "Kmer80u"];

#[derive(Clone, Debug, Serialize, Deserialize, PartialEq)]
pub enum Op {
    Next,
    /// nth(n), n given explicitly
    Nth(usize),
    /// nth(remaining + delta - 1): delta = 0 lands on the last k-mer, 1 is the first skip past the end
    NthRel(i64),
}

pub use simcore::spec::{gen_graph_spec, shrink_graph_spec, GraphSpec};

fn build<K: Kmer + serde::Serialize + serde::de::DeserializeOwned>(g: &GraphSpec) -> DebruijnGraph<K, u16> {
    base_graph_with_provenance::<K>(g).finish_serial()
}

// ------------------------------------------------------------------------------------
// (a) simulated consumer

pub struct Consumer;

#[derive(Clone, Debug, Serialize, Deserialize)]
pub struct ConsumerCase {
    pub graph: GraphSpec,
    /// node = node_sel mod number of nodes
    pub node_sel: usize,
    /// take the iterator through `&graph` iteration instead of `get_node_kmer`
    pub via_graph_iter: bool,
    pub ops: Vec<Op>,
    /// which live iterator each op goes to (index mod number of iterators; empty = all to the first)
    #[serde(default)]
    pub which: Vec<u8>,
    #[serde(default)]
    pub second: Option<Second>,
    /// history across graphs on the same thread: first build a graph of the same shape (every
    /// read reverse-complemented: same sizes, different content), iterate one of its nodes, drop it
    #[serde(default)]
    pub prior_graph: bool,
    /// after the history, the first iterator is consumed BY VALUE through one of std's
    /// internal-iteration methods: 1 count, 2 last, 3 for_each, 4 fold, 5 max, 6 collect (0 = not)
    #[serde(default)]
    pub finish_with: u8,
}

#[derive(Clone, Debug, Serialize, Deserialize)]
pub struct Second {
    pub same_node: bool,
    pub node_sel: usize,
    pub via_clone: bool,
}

fn f<K: Kmer>(k: Option<K>) -> String {
    k.map(|k| dna::to_ascii(&kmer_bases(&k))).unwrap_or_else(|| "None".into())
}

struct Slot<'g, K: Kmer> {
    it: debruijn::graph::NodeKmerIter<'g, K, u16>,
    model: Vec<K>,
    pos: usize,
    past_end: bool,
    id: usize,
}

fn open_slot<'g, K: Kmer + Send + Sync>(
    g: &'g DebruijnGraph<K, u16>,
    id: usize,
    via_graph_iter: bool,
    via_clone: bool,
    rec: &mut Rec,
) -> Result<Slot<'g, K>, Violation> {
    let model = node_kmers_model(g, id);
    let n = model.len();
    if id == g.len() - 1 {
        rec.count("reach_last_node_of_set");
    }
    if n == 1 {
        rec.count("reach_single_kmer_node");
    }
    let start = g.base.sequences.start[id];
    if (start % 32) + g.get_node(id).len() > 32 {
        rec.count("reach_node_spans_storage_block");
    }
    let nk = if via_graph_iter {
        g.into_iter().nth(id).expect("graph iteration ended early")
    } else {
        g.get_node_kmer(id)
    };
    if nk.node_id != id {
        return Err(Violation::new("node-order", "NodeIntoIter::next", format!("asked for node {}, got {}", id, nk.node_id)));
    }
    let it = if via_clone {
        // boomphf's parallel constructor clones the NodeKmer before iterating it
        let c = nk.clone();
        drop(nk);
        c.into_iter()
    } else {
        nk.into_iter()
    };
    // exact remaining count, up front
    let (lo, hi) = it.size_hint();
    if it.len() != n || lo != n || hi != Some(n) {
        return Err(Violation::new(
            "len-mismatch",
            "NodeKmerIter::size_hint",
            format!("node {} has {} k-mers, iterator reports len {} hint ({},{:?})", id, n, it.len(), lo, hi),
        ));
    }
    Ok(Slot {
        it,
        model,
        pos: 0,
        past_end: false,
        id,
    })
}

fn run_consumer<K: Kmer + Send + Sync + serde::Serialize + serde::de::DeserializeOwned>(c: &ConsumerCase, rec: &mut Rec) -> Result<(), Violation> {
    if c.prior_graph {
        let mut spec = c.graph.clone();
        for r in spec.reads.iter_mut() {
            *r = dna::rc(r);
        }
        let prior = build::<K>(&spec);
        if prior.len() > 0 {
            let id = c.node_sel % prior.len();
            let model = node_kmers_model(&prior, id);
            // (bounded: an endless stream must end as a mismatch, not as an allocation failure)
            let got: Vec<K> = prior.get_node_kmer(id).into_iter().take(model.len() + 2).collect();
            if got != model {
                return Err(Violation::new("wrong-kmer", "NodeKmerIter::next", format!("prior graph: node {} iterated to {} k-mers that differ from the model", id, got.len())));
            }
            rec.count("reach_prior_graph_iterated");
        }
        drop(prior);
    }
    let g = build::<K>(&c.graph);
    rec.ev("graph", g.len() as u64, 0);
    if g.len() == 0 {
        // iterating an empty graph must visit nothing (and not panic)
        rec.count("reach_empty_graph_iterated");
        return match guarded(|| (&g).into_iter().map(|nk| nk.into_iter().count()).sum::<usize>()) {
            Ok(0) => Ok(()),
            Ok(n) => Err(Violation::new("whole-graph-iteration", "&DebruijnGraph::into_iter", format!("empty graph yielded {} k-mers", n))),
            Err((loc, msg)) => Err(Violation::new("panic", "&DebruijnGraph::into_iter", format!("iterating an empty graph panicked at {}: {}", loc, msg))),
        };
    }
    let id = c.node_sel % g.len();
    let mut slots: Vec<Slot<K>> = vec![open_slot(&g, id, c.via_graph_iter, false, rec)?];
    if let Some(sec) = &c.second {
        // a second iterator alive at the same time: over another node, or over a clone of the same one
        let id2 = if sec.same_node { id } else { sec.node_sel % g.len() };
        slots.push(open_slot(&g, id2, !c.via_graph_iter, sec.via_clone, rec)?);
        rec.count("reach_two_live_iterators");
    }
    let mut max_n = 0;
    for (step, op) in c.ops.iter().enumerate() {
        let w = (c.which.get(step).cloned().unwrap_or(0) as usize) % slots.len();
        let sl = &mut slots[w];
        let n = sl.model.len();
        max_n = max_n.max(n);
        let (id, pos, past_end) = (sl.id, sl.pos, sl.past_end);
        let remaining = n - pos;
        let (skip, label) = match op {
            Op::Next => (0usize, "next()".to_string()),
            Op::Nth(m) => (*m, format!("nth({})", m)),
            Op::NthRel(d) => {
                let m = (remaining as i64 + d - 1).max(0) as usize;
                (m, format!("nth({})", m))
            }
        };
        let is_next = matches!(op, Op::Next);
        rec.choice(if is_next { "op_next" } else { "op_nth" }, (skip as u64).wrapping_mul(2).wrapping_add(w as u64), false);
        if !is_next {
            if skip > 4 {
                rec.count("op_nth_jump_branch");
            } else {
                rec.count("op_nth_step_branch");
            }
        } else {
            rec.count("op_next");
        }
        let want = match pos.checked_add(skip) {
            Some(t) if t < n => Some(sl.model[t]),
            _ => None,
        };
        if want.is_none() {
            if !past_end {
                rec.count(if skip > 4 && !is_next { "reach_jump_past_end" } else { "reach_step_past_end" });
            } else {
                rec.count("reach_call_after_end");
            }
        }
        let it = &mut sl.it;
        let got = guarded(|| if is_next { it.next() } else { it.nth(skip) });
        let got = match got {
            Ok(g) => g,
            Err((loc, msg)) => {
                return Err(Violation::new(
                    "panic",
                    if is_next { "NodeKmerIter::next" } else { "NodeKmerIter::nth" },
                    format!(
                        "step {}: {} on node {} ({} k-mers, {} consumed) panicked at {}: {}",
                        step,
                        label,
                        id,
                        n,
                        pos,
                        loc,
                        msg.chars().take(120).collect::<String>()
                    ),
                ));
            }
        };
        rec.evs("ret", &f(got));
        if got != want {
            let class = if want.is_none() { "not-none-past-end" } else { "wrong-kmer" };
            return Err(Violation::new(
                class,
                if is_next { "NodeKmerIter::next" } else { "NodeKmerIter::nth" },
                format!(
                    "step {}: {} on iterator {} over node {} ({} k-mers, {} consumed{}) returned {} but the model says {}",
                    step,
                    label,
                    w,
                    id,
                    n,
                    pos,
                    if past_end { ", already past the end" } else { "" },
                    f(got),
                    f(want)
                ),
            ));
        }
        if want.is_none() {
            sl.past_end = true;
            sl.pos = n;
        } else {
            sl.pos += skip + 1;
        }
    }
    if c.finish_with != 0 {
        let sl = slots.remove(0);
        let rest: Vec<K> = sl.model[sl.pos.min(sl.model.len())..].to_vec();
        let it = sl.it;
        let kind = c.finish_with;
        rec.choice("finish_with", kind as u64, false);
        rec.count("op_consumed_by_value");
        let bound = rest.len() + 2;
        let got = guarded(move || -> Vec<K> {
            match kind {
                1 => {
                    let n = it.count();
                    vec![K::empty(); n]
                }
                2 => it.last().into_iter().collect(),
                // the collecting consumers are bounded from inside their closure: an endless stream
                // must end as a reported panic, not as an allocation failure that takes the process
                // down (count / last / max on an endless stream spin without allocating and are left
                // to the hang watchdog)
                3 => {
                    let mut v = Vec::new();
                    it.for_each(|k| {
                        assert!(v.len() <= bound, "endless stream: more than {} k-mers from a node that has {} left", bound, bound - 2);
                        v.push(k)
                    });
                    v
                }
                4 => it.fold(Vec::new(), |mut v, k| {
                    assert!(v.len() <= bound, "endless stream: more than {} k-mers from a node that has {} left", bound, bound - 2);
                    v.push(k);
                    v
                }),
                5 => it.max().into_iter().collect(),
                _ => {
                    let mut n = 0usize;
                    it.map(|k| {
                        n += 1;
                        assert!(n <= bound + 1, "endless stream: more than {} k-mers from a node that has {} left", bound, bound - 2);
                        k
                    })
                    .collect()
                }
            }
        });
        let want: Vec<K> = match kind {
            1 => vec![K::empty(); rest.len()],
            2 => rest.last().cloned().into_iter().collect(),
            5 => rest.iter().max().cloned().into_iter().collect(),
            _ => rest.clone(),
        };
        match got {
            Ok(g) if g == want => {}
            Ok(g) => {
                return Err(Violation::new(
                    "wrong-kmer",
                    "NodeKmerIter consumed by value",
                    format!("after the history, consuming the rest through method #{} gave {} items, the node has {} k-mers left (contents differ or count differs)", kind, g.len(), rest.len()),
                ))
            }
            Err((loc, msg)) => return Err(Violation::new("panic", "NodeKmerIter consumed by value", format!("method #{} panicked at {}: {}", kind, loc, msg))),
        }
    }
    rec.nontrivial = c.ops.iter().any(|o| !matches!(o, Op::Next)) && max_n >= 2;
    Ok(())
}

impl ConsumerCase {
    fn with_second(mut self, rng: &mut Rng) -> ConsumerCase {
        if rng.chance(1, 3) {
            self.second = Some(Second {
                same_node: rng.chance(1, 2),
                node_sel: rng.below(1 << 16),
                via_clone: rng.chance(1, 2),
            });
            self.which = (0..self.ops.len()).map(|_| rng.below(2) as u8).collect();
        }
        self
    }
}

fn gen_ops(rng: &mut Rng) -> Vec<Op> {
    let n_ops = rng.range(1, 14);
    let mut ops = Vec::new();
    for _ in 0..n_ops {
        let op = match rng.below(12) {
            0..=3 => Op::Next,
            4 | 5 => Op::Nth(rng.range(0, 4)),
            6 => Op::Nth(rng.range(5, 9)),
            7 => Op::Nth(rng.range(5, 40)),
            8 => Op::NthRel(0),
            9 => Op::NthRel(1),
            10 => Op::NthRel(-1),
            _ => match rng.below(6) {
                0 => Op::Nth(usize::MAX - rng.below(70)),
                2 => Op::Nth((1usize << 32) * rng.range(1, 3) + rng.below(8)),
                1 => Op::Nth(usize::MAX / 2 + rng.below(5)),
                _ => Op::NthRel(rng.range(2, 70) as i64),
            },
        };
        ops.push(op);
    }
    ops
}

impl Harness for Consumer {
    type Case = ConsumerCase;
    fn property(&self) -> &'static str {
        "C18"
    }
    fn name(&self) -> &'static str {
        "c18-consumer"
    }
    fn engine(&self) -> &'static str {
        "S"
    }
    fn cases(&self, tier: Tier) -> u64 {
        match tier {
            Tier::Quick => 400_000,
            Tier::Thorough => 20_000_000,
        }
    }
    fn gen(&self, rng: &mut Rng, tier: Tier) -> ConsumerCase {
        // long nodes (hundreds of k-mers, many storage blocks) now and then; more often in the thorough tier
        let long = rng.chance(1, if tier == Tier::Thorough { 40 } else { 400 });
        let mut graph = if long { gen_graph_spec(rng, &KTYPES, 4, 1500) } else { gen_graph_spec(rng, &KTYPES, 5, 90) };
        if rng.chance(1, 15) {
            // same reads, a user-declared k-mer type whose K fills its storage integer
            graph.ktype = rng.pick(&FULL_WIDTH_KTYPES).to_string();
            let k = simcore::spec::k_of(&graph.ktype);
            for r in graph.reads.iter_mut() {
                while !r.is_empty() && r.len() < k + 3 {
                    let b = r[r.len() / 2];
                    r.push((b + r.len() as u8) % 4);
                }
            }
        }
        if rng.chance(1, 12) {
            // free-form node set, now and then with a k-mer type below the pipeline's minimum
            if rng.chance(1, 2) {
                graph.ktype = rng.pick(&TINY_KTYPES).to_string();
            }
            let k = simcore::spec::k_of(&graph.ktype);
            graph.direct_nodes = simcore::spec::gen_direct_nodes(rng, &graph.reads, k, 12);
            if graph.direct_nodes.is_empty() {
                graph.direct_nodes = vec![((0..k + 5).map(|i| ((i * 7 + 1) % 4) as u8).collect(), 0)];
            }
        }
        if rng.chance(1, 60) {
            graph.reads.clear();
            graph.direct_nodes.clear();
        }
        ConsumerCase {
            graph,
            node_sel: if rng.chance(1, 4) { usize::MAX } else { rng.below(1 << 16) },
            via_graph_iter: rng.chance(1, 2),
            ops: gen_ops(rng),
            which: Vec::new(),
            second: None,
            prior_graph: rng.chance(1, 4),
            finish_with: if rng.chance(1, 3) { rng.range(1, 6) as u8 } else { 0 },
        }
        .with_second(rng)
    }
    fn run(&self, c: &ConsumerCase, rec: &mut Rec) -> Result<(), Violation> {
        with_k!(
            c.graph.ktype.as_str(),
            [Kmer2, Kmer3, Kmer4, Kmer5, Kmer6, Kmer8, Kmer10, Kmer12, Kmer14, Kmer15, Kmer16, Kmer20, Kmer24, Kmer30, KmerK31, Kmer32, Kmer40, Kmer48, Kmer64, Kmer4v, Kmer8v, Kmer16v, Kmer32v, Kmer64v, Kmer6w, Kmer12w, Kmer20w, Kmer7u, Kmer33u, Kmer80u],
            run_consumer,
            (c, rec)
        )
    }
    fn shrink(&self, c: &ConsumerCase) -> Vec<ConsumerCase> {
        let mut out = Vec::new();
        if c.prior_graph {
            let mut x = c.clone();
            x.prior_graph = false;
            out.push(x);
        }
        if c.finish_with != 0 {
            let mut x = c.clone();
            x.finish_with = 0;
            out.push(x);
        }
        if c.second.is_some() {
            let mut x = c.clone();
            x.second = None;
            x.which.clear();
            out.push(x);
        }
        for i in 0..c.ops.len() {
            let mut x = c.clone();
            x.ops.remove(i);
            if i < x.which.len() {
                x.which.remove(i);
            }
            out.push(x);
        }
        for (i, op) in c.ops.iter().enumerate() {
            if let Op::Nth(m) = op {
                if *m > 5 {
                    let mut x = c.clone();
                    x.ops[i] = Op::Nth(5);
                    out.push(x);
                }
            }
            if let Op::NthRel(d) = op {
                if *d > 1 {
                    let mut x = c.clone();
                    x.ops[i] = Op::NthRel(1);
                    out.push(x);
                }
            }
        }
        // NOTE: shrinking the graph changes node numbering; node_sel is taken mod len so it stays valid
        for g in shrink_graph_spec(&c.graph) {
            let mut x = c.clone();
            x.graph = g;
            out.push(x);
        }
        if c.via_graph_iter {
            let mut x = c.clone();
            x.via_graph_iter = false;
            out.push(x);
        }
        out
    }
    fn rule(&self) -> String {
        "case = (read set -> real pipeline -> graph, node, call history over next()/nth(n)); n drawn from 0..4 (step branch), \
         5.. (jump branch), remaining-1, remaining, remaining+1, remaining+large; non-trivial = history contains an nth and the node \
         has >= 2 k-mers; distinct = distinct call histories by digest of (op, n) sequence"
            .into()
    }
    fn components(&self) -> Value {
        json!({"real": ["NodeKmer::into_iter", "NodeKmerIter::{next,nth,size_hint,len}", "&DebruijnGraph::into_iter", "graph built by filter_kmers+compress_kmers_with_hash+finish_serial"],
               "stub": [], "simulated": ["the external consumer (call history)"]})
    }
}

// ------------------------------------------------------------------------------------
// (b) real serial consumer over the monitor

pub struct MphfSerial;

#[derive(Clone, Debug, Serialize, Deserialize)]
pub struct MphfCase {
    pub graph: GraphSpec,
    /// gamma in thousandths (1020..3000): smaller gamma => more levels => longer skips
    pub gamma_milli: u32,
}

fn run_mphf_serial<K: Kmer + Send + Sync + serde::Serialize + serde::de::DeserializeOwned>(c: &MphfCase, rec: &mut Rec) -> Result<(), Violation> {
    let g = build::<K>(&c.graph);
    let gamma = c.gamma_milli as f64 / 1000.0;
    rec.choice("gamma_milli", c.gamma_milli as u64, c.gamma_milli == 1700);
    let mon = Mon::new(&g);
    let n = mon.total_kmers();
    rec.ev("graph", g.len() as u64, n as u64);
    if n == 0 {
        // an index over an empty graph: the constructor must cope with zero nodes
        rec.count("reach_empty_graph_indexed");
        return match guarded(|| Mphf::<K>::from_chunked_iterator(gamma, &g, 0)) {
            Ok(_) => Ok(()),
            Err((loc, msg)) => Err(Violation::new(
                "panic",
                "Mphf::from_chunked_iterator over &DebruijnGraph",
                format!("construction over an empty graph panicked at {}: {}", loc, msg.chars().take(160).collect::<String>()),
            )),
        };
    }
    // measured precondition (C01's business otherwise): k-mers distinct
    let mut all: BTreeSet<Vec<u8>> = BTreeSet::new();
    let mut distinct = true;
    for m in &mon.models {
        for k in m {
            if !all.insert(kmer_bases(k)) {
                distinct = false;
            }
        }
    }
    if !distinct {
        rec.count("skipped_duplicate_kmers");
        return Ok(());
    }
    let built = guarded(|| Mphf::<K>::from_chunked_iterator(gamma, &mon, n as u64));
    use std::sync::atomic::Ordering::Relaxed;
    rec.add("consumer_next_calls", mon.calls_next.load(Relaxed));
    rec.add("consumer_nth_step_calls", mon.calls_nth_small.load(Relaxed));
    rec.add("consumer_nth_jump_calls", mon.calls_nth_big.load(Relaxed));
    rec.add("consumer_calls_past_end", mon.calls_past_end.load(Relaxed));
    rec.ev("consumer_calls", mon.calls_nth_small.load(Relaxed), mon.calls_nth_big.load(Relaxed));
    rec.env.u64(mon.calls_nth_small.load(Relaxed));
    rec.env.u64(mon.calls_nth_big.load(Relaxed));
    rec.env.u64(mon.calls_next.load(Relaxed));
    rec.env.u64(n as u64);
    rec.env_choices += 1;
    if mon.calls_nth_big.load(Relaxed) > 0 {
        rec.count("reach_real_consumer_used_jump_branch");
        rec.nontrivial = true;
    }
    if let Some((class, msg)) = mon.first_error() {
        return Err(Violation::new(&class, "Mphf::from_chunked_iterator over &DebruijnGraph", msg));
    }
    let mphf = match built {
        Ok(m) => m,
        Err((loc, msg)) => {
            return Err(Violation::new(
                "panic",
                "Mphf::from_chunked_iterator over &DebruijnGraph",
                format!("construction panicked at {}: {}", loc, msg.chars().take(160).collect::<String>()),
            ))
        }
    };
    // bijection onto 0..n
    let mut seen = vec![false; n];
    for m in &mon.models {
        for k in m {
            match mphf.try_hash(k) {
                Some(s) if (s as usize) < n && !seen[s as usize] => seen[s as usize] = true,
                other => {
                    return Err(Violation::new(
                        "not-bijective",
                        "Mphf::from_chunked_iterator over &DebruijnGraph",
                        format!("k-mer {} got slot {:?} (n = {})", dna::to_ascii(&kmer_bases(k)), other, n),
                    ))
                }
            }
        }
    }
    // whole-graph iteration through the unwrapped graph equals the concatenation of the nodes' k-mers
    let flat: Vec<K> = (&g).into_iter().take(mon.models.len() + 2).enumerate().flat_map(|(i, nk)| nk.into_iter().take(mon.models.get(i).map(|m| m.len()).unwrap_or(0) + 2)).collect();
    let want: Vec<K> = mon.models.iter().flat_map(|m| m.iter().cloned()).collect();
    if flat != want {
        return Err(Violation::new(
            "whole-graph-iteration",
            "&DebruijnGraph::into_iter",
            format!("flattened iteration yields {} k-mers, graph has {}", flat.len(), want.len()),
        ));
    }
    Ok(())
}

impl Harness for MphfSerial {
    type Case = MphfCase;
    fn property(&self) -> &'static str {
        "C18"
    }
    fn name(&self) -> &'static str {
        "c18-mphf-serial"
    }
    fn engine(&self) -> &'static str {
        "S"
    }
    fn cases(&self, tier: Tier) -> u64 {
        match tier {
            Tier::Quick => 60_000,
            Tier::Thorough => 4_000_000,
        }
    }
    fn gen(&self, rng: &mut Rng, tier: Tier) -> MphfCase {
        let long = rng.chance(1, if tier == Tier::Thorough { 40 } else { 400 });
        let mut graph = if long { gen_graph_spec(rng, &KTYPES, 6, 1500) } else { gen_graph_spec(rng, &KTYPES, 8, 160) };
        if rng.chance(1, 60) {
            graph.reads.clear();
        }
        let gamma_milli = match rng.below(4) {
            0 => 1700,
            1 => rng.range(1020, 1200) as u32,
            _ => rng.range(1020, 3000) as u32,
        };
        MphfCase { graph, gamma_milli }
    }
    fn run(&self, c: &MphfCase, rec: &mut Rec) -> Result<(), Violation> {
        with_k!(
            c.graph.ktype.as_str(),
            [Kmer4, Kmer5, Kmer6, Kmer8, Kmer10, Kmer12, Kmer14, Kmer15, Kmer16, Kmer20, Kmer24, Kmer30, KmerK31, Kmer32, Kmer40, Kmer48, Kmer64],
            run_mphf_serial,
            (c, rec)
        )
    }
    fn shrink(&self, c: &MphfCase) -> Vec<MphfCase> {
        let mut out: Vec<MphfCase> = shrink_graph_spec(&c.graph)
            .into_iter()
            .map(|g| MphfCase {
                graph: g,
                gamma_milli: c.gamma_milli,
            })
            .collect();
        if c.gamma_milli != 1700 {
            out.push(MphfCase {
                graph: c.graph.clone(),
                gamma_milli: 1700,
            });
        }
        out
    }
    fn rule(&self) -> String {
        "case = (read set -> real pipeline -> graph, gamma); the real serial MPHF constructor drives the monitored iterator; \
         non-trivial = the consumer issued at least one nth(n) with n > 4 (jump branch); distinct = distinct (graph, gamma) by digest of gamma + call counts"
            .into()
    }
    fn components(&self) -> Value {
        json!({"real": ["boomphf::Mphf::from_chunked_iterator", "NodeKmerIter behind a forwarding monitor", "graph from the real pipeline"],
               "stub": [], "simulated": ["gamma (level structure => skip lengths)"]})
    }
}
