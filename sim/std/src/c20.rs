//! C20 - exports and persistence are faithful.
//!
//! Export and persistence are I/O: the sink/source are caller-supplied streams or files
//! whose legal behaviours (accepting fewer bytes than offered, `Interrupted`, failing at
//! any byte, failing only when flushed, a full disk, a file-size limit) no test sink
//! exhibits. `c20-serde` sends values and graphs through `SimWriter`/`SimReader`;
//! `c20-export` sends GFA / JSON exports through `SimWriter` and through real files on a
//! temp dir, `/dev/full`, and under `RLIMIT_FSIZE` (in a child process).
//! Transparent faults keep the strict oracle; hard faults relax it narrowly to
//! "may fail (Err or panic), may never report success with missing or wrong data".

use debruijn::dna_string::{DnaString, PackedDnaStringSet};
use debruijn::graph::{BaseGraph, DebruijnGraph};
use debruijn::{Dir, Exts, Kmer, Mer};
use serde::de::DeserializeOwned;
use serde::{Deserialize, Serialize};
use serde_json::{json, Value};
use simcore::dna;
use simcore::driver::{guarded, Harness, Tier};
use simcore::io::{Hard, IoPlan, SimReader, SimWriter};
use simcore::model::{first_diff, kmer_from_bases, node_bases, probes, transcript};
use simcore::pipe::base_graph_for;
use simcore::rec::{Rec, Violation};
use simcore::rng::Rng;
use std::collections::BTreeMap;
use std::fmt::Debug;

use crate::c18::{gen_graph_spec, shrink_graph_spec, GraphSpec};
use crate::with_k;

pub const KTYPES: [&str; 12] = ["Kmer4", "Kmer5", "Kmer6", "Kmer8", "Kmer12", "Kmer16", "Kmer20", "KmerK31", "Kmer32", "Kmer40", "Kmer48", "Kmer64"];

fn build<K: Kmer + Send + Sync>(g: &GraphSpec, parallel: bool) -> DebruijnGraph<K, u16> {
    let b = base_graph_for::<K>(g);
    if parallel {
        b.finish()
    } else {
        b.finish_serial()
    }
}

fn gen_hard_w(rng: &mut Rng) -> Hard {
    match rng.below(5) {
        0 => Hard::ErrAt(0),
        1 => Hard::ErrAt(rng.range(1, 40)),
        2 => Hard::ErrAt(rng.range(1, 3000)),
        3 => Hard::ZeroAt(rng.range(0, 600)),
        _ => Hard::ErrOnFlush,
    }
}

fn gen_hard_r(rng: &mut Rng) -> Hard {
    match rng.below(4) {
        0 => Hard::ErrAt(rng.range(0, 40)),
        1 => Hard::ErrAt(rng.range(1, 3000)),
        2 => Hard::EofAt(rng.range(0, 40)),
        _ => Hard::EofAt(rng.range(1, 3000)),
    }
}

fn gen_plan(rng: &mut Rng, writer: bool) -> IoPlan {
    match rng.below(10) {
        0 => {
            let mut p = IoPlan::clean();
            p.seed = rng.next_u64();
            p
        }
        1..=6 => IoPlan::gen_transparent(rng),
        _ => {
            let mut p = if rng.chance(1, 2) { IoPlan::gen_transparent(rng) } else { IoPlan::clean() };
            p.seed = rng.next_u64();
            p.hard = Some(if writer { gen_hard_w(rng) } else { gen_hard_r(rng) });
            p
        }
    }
}

// ------------------------------------------------------------------------------------
// serde round trips

#[derive(Clone, Debug, Serialize, Deserialize)]
pub enum Val {
    /// k-mer of the named type with these bases
    Kmer(String, Vec<u8>),
    DnaString(Vec<u8>),
    Exts(u8),
    Dir(bool),
    StringSet(Vec<Vec<u8>>),
    /// PackedDnaStringSet given by its public fields: packed bases, start table, length table
    /// (offsets as a store of more than 2^32 bases would hold them included)
    StringSetRaw(Vec<u8>, Vec<u64>, Vec<u32>),
    /// Lmer with 1, 2 or 3 storage words
    Lmer(u8, Vec<u8>),
    BaseGraph(GraphSpec),
    Graph(GraphSpec, bool),
    /// finished graph whose node payload is: 0 u128, 1 BTreeMap<u32,u32>, 2 Vec<u8>, 3 (u32, String), 4 Option<i64>
    GraphData(GraphSpec, u8),
}

#[derive(Clone, Debug, Serialize, Deserialize)]
pub struct SerdeCase {
    pub val: Val,
    pub wplan: IoPlan,
    pub rplan: IoPlan,
}

pub struct SerdeCheck;

/// Round trip of one value. `same` decides equality of original and read-back value.
fn round_trip<T: Serialize + DeserializeOwned>(
    what: &'static str,
    v: &T,
    c: &SerdeCase,
    rec: &mut Rec,
    same: &dyn Fn(&T, &T) -> Result<(), String>,
) -> Result<(), Violation> {
    let clean = serde_json::to_vec(v).map_err(|e| Violation::new("serialize-failed", what, e.to_string()))?;
    rec.ev("clean_bytes", clean.len() as u64, 0);
    // --- write side
    let mut w = SimWriter::new(c.wplan.clone());
    let res = guarded(|| serde_json::to_writer(&mut w, v));
    let hard_w = w.hard_fired();
    let data = w.finish(rec);
    match res {
        Ok(Ok(())) => {
            if data != clean {
                let class = if c.wplan.hard.is_some() { "ok-with-missing-data" } else { "stream-bytes-differ" };
                return Err(Violation::new(
                    class,
                    what,
                    format!(
                        "to_writer returned Ok but the sink accepted {} bytes that differ from the {} bytes of the fault-free run (hard fault delivered: {})",
                        data.len(),
                        clean.len(),
                        hard_w
                    ),
                ));
            }
        }
        Ok(Err(e)) => {
            if c.wplan.hard.is_none() {
                let class = if c.wplan.is_clean() { "serialize-failed" } else { "transparent-fault-failed" };
                return Err(Violation::new(class, what, format!("to_writer failed although the sink only took short writes / Interrupted at most: {}", e)));
            }
            rec.count("hard_write_reported");
            if !clean.starts_with(&data) {
                return Err(Violation::new("garbage-before-failure", what, "bytes accepted before the failure are not a prefix of the clean output".into()));
            }
        }
        Err((loc, msg)) => {
            if c.wplan.hard.is_none() {
                return Err(Violation::new("panic", what, format!("to_writer panicked at {}: {}", loc, msg)));
            }
            rec.count("hard_write_panicked");
        }
    }
    // --- read side (from the clean bytes: what a complete write persisted)
    let mut r = SimReader::new(c.rplan.clone(), &clean);
    let res = guarded(|| serde_json::from_reader::<_, T>(&mut r));
    let hard_r = r.hard_fired();
    r.finish(rec);
    match res {
        Ok(Ok(v2)) => {
            if let Err(e) = same(v, &v2) {
                let class = if c.rplan.hard.is_some() && hard_r { "ok-with-wrong-data" } else { "round-trip-differs" };
                return Err(Violation::new(class, what, format!("value read back differs: {}", e)));
            }
            let again = serde_json::to_vec(&v2).unwrap();
            if again != clean {
                return Err(Violation::new("round-trip-differs", what, "re-serialising the value read back gives different bytes".into()));
            }
        }
        Ok(Err(e)) => {
            if c.rplan.hard.is_none() {
                let class = if c.rplan.is_clean() { "round-trip-failed" } else { "transparent-fault-failed" };
                return Err(Violation::new(class, what, format!("from_reader rejected the bytes to_writer produced (source took short reads / Interrupted at most): {}", e)));
            }
            rec.count("hard_read_reported");
        }
        Err((loc, msg)) => {
            if c.rplan.hard.is_none() {
                return Err(Violation::new("panic", what, format!("from_reader panicked at {}: {}", loc, msg)));
            }
            rec.count("hard_read_panicked");
        }
    }
    rec.nontrivial = clean.len() > 8;
    Ok(())
}

fn eq_same<T: PartialEq + Debug>(a: &T, b: &T) -> Result<(), String> {
    if a == b {
        Ok(())
    } else {
        Err(format!("{:?} != {:?}", a, b).chars().take(200).collect())
    }
}

fn kmer_rt<K: Kmer + Serialize + DeserializeOwned>(bases: &[u8], c: &SerdeCase, rec: &mut Rec) -> Result<(), Violation> {
    let k: K = kmer_from_bases(bases);
    round_trip("serde k-mer", &k, c, rec, &|a: &K, b: &K| {
        if a == b && a.cmp(b) == std::cmp::Ordering::Equal && a.rc() == b.rc() && a.to_string() == b.to_string() {
            Ok(())
        } else {
            Err(format!("{:?} != {:?}", a, b))
        }
    })
}

fn graph_same<K: Kmer, D: Debug>(a: &DebruijnGraph<K, D>, b: &DebruijnGraph<K, D>) -> Result<(), String> {
    let p = probes(a, &[]);
    let ta = transcript(a, &p);
    let tb = transcript(b, &p);
    match first_diff(&ta, &tb) {
        None => Ok(()),
        Some(d) => Err(d),
    }
}

fn basegraph_rt<K: Kmer + Send + Sync + Serialize + DeserializeOwned>(g: &GraphSpec, c: &SerdeCase, rec: &mut Rec) -> Result<(), Violation> {
    let b: BaseGraph<K, u16> = base_graph_for::<K>(g);
    rec.ev("graph", b.len() as u64, 0);
    round_trip("serde BaseGraph", &b, c, rec, &|a: &BaseGraph<K, u16>, x: &BaseGraph<K, u16>| {
        if a.len() != x.len() || a.stranded != x.stranded || a.exts != x.exts || a.data != x.data {
            return Err("len/stranded/exts/data differ".into());
        }
        for i in 0..a.len() {
            if a.sequences.get(i) != x.sequences.get(i) {
                return Err(format!("sequence {} differs", i));
            }
        }
        // and the graphs they finish into answer identically
        graph_same(&a.clone().finish_serial(), &x.clone().finish_serial())
    })
}

fn graph_rt<K: Kmer + Send + Sync + Serialize + DeserializeOwned>(g: &GraphSpec, parallel: bool, c: &SerdeCase, rec: &mut Rec) -> Result<(), Violation> {
    let dg: DebruijnGraph<K, u16> = build::<K>(g, parallel);
    rec.ev("graph", dg.len() as u64, parallel as u64);
    if dg.len() == 0 {
        rec.count("reach_empty_graph");
    }
    round_trip("serde DebruijnGraph", &dg, c, rec, &|a: &DebruijnGraph<K, u16>, b: &DebruijnGraph<K, u16>| graph_same(a, b))
}

fn graph_with_data<K: Kmer + Send + Sync, D: Clone + Debug>(g: &GraphSpec, f: &dyn Fn(u16, usize) -> D) -> DebruijnGraph<K, D> {
    let b: BaseGraph<K, u16> = base_graph_for::<K>(g);
    let mut out: BaseGraph<K, D> = BaseGraph::new(b.stranded);
    for i in 0..b.len() {
        let s = b.sequences.get(i);
        let bases: Vec<u8> = (0..s.len()).map(|j| s.get(j)).collect();
        out.add(bases.iter(), b.exts[i], f(b.data[i], i));
    }
    out.finish_serial()
}

fn graph_data_rt<K: Kmer + Send + Sync + Serialize + DeserializeOwned>(g: &GraphSpec, kind: u8, c: &SerdeCase, rec: &mut Rec) -> Result<(), Violation> {
    use std::collections::BTreeMap;
    rec.count("reach_graph_with_rich_payload");
    match kind % 5 {
        0 => {
            let dg = graph_with_data::<K, u128>(g, &|d, i| ((d as u128) << 70) | (i as u128) | (1u128 << 127));
            round_trip("serde DebruijnGraph<u128 payload>", &dg, c, rec, &|a: &DebruijnGraph<K, u128>, b: &DebruijnGraph<K, u128>| graph_same(a, b))
        }
        1 => {
            let dg = graph_with_data::<K, BTreeMap<u32, u32>>(g, &|d, i| [(d as u32, i as u32), (7, 9)].into_iter().collect());
            round_trip("serde DebruijnGraph<map payload>", &dg, c, rec, &|a: &DebruijnGraph<K, BTreeMap<u32, u32>>, b: &DebruijnGraph<K, BTreeMap<u32, u32>>| graph_same(a, b))
        }
        2 => {
            let dg = graph_with_data::<K, Vec<u8>>(g, &|d, i| vec![d as u8, i as u8]);
            round_trip("serde DebruijnGraph<vec payload>", &dg, c, rec, &|a: &DebruijnGraph<K, Vec<u8>>, b: &DebruijnGraph<K, Vec<u8>>| graph_same(a, b))
        }
        3 => {
            let dg = graph_with_data::<K, (u32, String)>(g, &|d, i| (d as u32, format!("n\"{}\\", i)));
            round_trip("serde DebruijnGraph<tuple payload>", &dg, c, rec, &|a: &DebruijnGraph<K, (u32, String)>, b: &DebruijnGraph<K, (u32, String)>| graph_same(a, b))
        }
        _ => {
            let dg = graph_with_data::<K, Option<i64>>(g, &|d, i| if i % 2 == 0 { Some(-(d as i64) - (1 << 40)) } else { None });
            round_trip("serde DebruijnGraph<option payload>", &dg, c, rec, &|a: &DebruijnGraph<K, Option<i64>>, b: &DebruijnGraph<K, Option<i64>>| graph_same(a, b))
        }
    }
}

macro_rules! all_kmer_types {
    ($name:expr, $f:ident, $args:tt) => {
        with_k!(
            $name,
            [Kmer2, Kmer3, Kmer4, Kmer5, Kmer6, Kmer8, Kmer10, Kmer12, Kmer14, Kmer15, Kmer16, Kmer20, Kmer24, Kmer30, KmerK31, Kmer32, Kmer40, Kmer48, Kmer64, Kmer4v, Kmer8v, Kmer16v, Kmer32v, Kmer64v, Kmer6w, Kmer12w, Kmer20w, Kmer7u, Kmer33u, Kmer80u],
            $f,
            $args
        )
    };
}

pub const ALL_KTYPES: [&str; 30] = [
    "Kmer2", "Kmer3", "Kmer4", "Kmer5", "Kmer6", "Kmer8", "Kmer10", "Kmer12", "Kmer14", "Kmer15", "Kmer16", "Kmer20", "Kmer24", "Kmer30", "KmerK31", "Kmer32",
    "Kmer40", "Kmer48", "Kmer64", "Kmer4v", "Kmer8v", "Kmer16v", "Kmer32v", "Kmer64v", "Kmer6w", "Kmer12w", "Kmer20w", "Kmer7u", "Kmer33u", "Kmer80u",
];

impl Harness for SerdeCheck {
    type Case = SerdeCase;
    fn property(&self) -> &'static str {
        "C20"
    }
    fn name(&self) -> &'static str {
        "c20-serde"
    }
    fn engine(&self) -> &'static str {
        "S"
    }
    fn cases(&self, tier: Tier) -> u64 {
        match tier {
            Tier::Quick => 200_000,
            Tier::Thorough => 10_000_000,
        }
    }
    fn gen(&self, rng: &mut Rng, _tier: Tier) -> SerdeCase {
        let val = match rng.below(12) {
            0 | 1 => {
                let kt = rng.pick(&ALL_KTYPES).to_string();
                let k = crate::ktypes::k_of(&kt);
                let bases = match rng.below(4) {
                    0 => vec![0u8; k],
                    1 => vec![3u8; k],
                    _ => dna::random_seq(rng, k, &[0, 1, 2, 3]),
                };
                Val::Kmer(kt, bases)
            }
            2 => {
                let len = *rng.pick(&[0usize, 1, 31, 32, 33, 63, 64, 65, 96, 200]);
                let len = if rng.chance(1, 3) { rng.range(0, 130) } else { len };
                Val::DnaString(dna::random_seq(rng, len, &[0, 1, 2, 3]))
            }
            3 => Val::Exts(rng.below(256) as u8),
            4 => Val::Dir(rng.chance(1, 2)),
            5 if rng.chance(1, 3) => {
                let n = rng.range(1, 5);
                let l = rng.range(0, 90);
                let seq = dna::random_seq(rng, l, &[0, 1, 2, 3]);
                let wide = rng.chance(1, 2);
                let start: Vec<u64> = (0..n)
                    .map(|_| match rng.below(if wide { 6 } else { 2 }) {
                        0 => rng.below(l + 1) as u64,
                        1 => rng.below(1 << 20) as u64,
                        2 => (1u64 << 32) + rng.below(1000) as u64,
                        3 => (1u64 << 32) - 1 - rng.below(3) as u64,
                        4 => (1u64 << 31) + rng.below(1000) as u64,
                        _ => (rng.next_u64() >> rng.range(1, 30)) | (1 << 32),
                    })
                    .collect();
                let length: Vec<u32> = (0..n).map(|_| if rng.chance(1, 6) { u32::MAX - rng.below(3) as u32 } else { rng.below(70_000) as u32 }).collect();
                Val::StringSetRaw(seq, start, length)
            }
            5 => {
                let n = rng.range(0, 6);
                Val::StringSet((0..n).map(|_| { let l = rng.range(0, 70); dna::random_seq(rng, l, &[0, 1, 2, 3]) }).collect())
            }
            6 => {
                let words = rng.range(1, 3) as u8;
                let max = (words as usize * 64 - 8) / 2;
                let len = *rng.pick(&[0usize, 1, max / 2, max - 1, max]);
                Val::Lmer(words, dna::random_seq(rng, len, &[0, 1, 2, 3]))
            }
            7 => Val::BaseGraph(gen_graph_spec(rng, &KTYPES, 6, 100)),
            8 => Val::GraphData(gen_graph_spec(rng, &KTYPES, 6, 100), rng.below(5) as u8),
            _ => Val::Graph(gen_graph_spec(rng, &KTYPES, 6, 100), rng.chance(1, 2)),
        };
        SerdeCase {
            val,
            wplan: gen_plan(rng, true),
            rplan: gen_plan(rng, false),
        }
    }
    fn run(&self, c: &SerdeCase, rec: &mut Rec) -> Result<(), Violation> {
        rec.choice("wplan_hard", c.wplan.hard.is_some() as u64, c.wplan.is_clean());
        rec.choice("rplan_hard", c.rplan.hard.is_some() as u64, c.rplan.is_clean());
        match &c.val {
            Val::Kmer(kt, bases) => all_kmer_types!(kt.as_str(), kmer_rt, (bases, c, rec)),
            Val::DnaString(b) => {
                let d = DnaString::from_bytes(b);
                round_trip("serde DnaString", &d, c, rec, &|a: &DnaString, x: &DnaString| {
                    if a == x && a.to_bytes() == x.to_bytes() && a.len() == x.len() {
                        Ok(())
                    } else {
                        Err(format!("{:?} != {:?}", a, x).chars().take(200).collect())
                    }
                })
            }
            Val::Exts(v) => round_trip("serde Exts", &Exts::new(*v), c, rec, &eq_same),
            Val::Dir(r) => {
                let d = if *r { Dir::Right } else { Dir::Left };
                round_trip("serde Dir", &d, c, rec, &|a: &Dir, b: &Dir| {
                    if simcore::model::dir_u(*a) == simcore::model::dir_u(*b) {
                        Ok(())
                    } else {
                        Err("direction flipped".into())
                    }
                })
            }
            Val::StringSet(seqs) => {
                let mut s = PackedDnaStringSet::new();
                for x in seqs {
                    s.add(x.iter());
                }
                round_trip("serde PackedDnaStringSet", &s, c, rec, &|a: &PackedDnaStringSet, b: &PackedDnaStringSet| {
                    if a.len() != b.len() {
                        return Err("len differs".into());
                    }
                    for i in 0..a.len() {
                        if a.get(i) != b.get(i) || a.get(i).to_dna_string() != b.get(i).to_dna_string() {
                            return Err(format!("sequence {} differs", i));
                        }
                    }
                    Ok(())
                })
            }
            Val::StringSetRaw(seq, start, length) => {
                if start.iter().any(|x| *x >= 1 << 32) {
                    rec.count("reach_store_offsets_beyond_2p32");
                }
                let s = PackedDnaStringSet {
                    sequence: DnaString::from_bytes(seq),
                    start: start.iter().map(|x| *x as usize).collect(),
                    length: length.clone(),
                };
                round_trip("serde PackedDnaStringSet (public fields)", &s, c, rec, &|a: &PackedDnaStringSet, b: &PackedDnaStringSet| {
                    if a.sequence != b.sequence {
                        return Err("packed bases differ".into());
                    }
                    if a.start != b.start {
                        return Err(format!("start table {:?} came back as {:?}", a.start, b.start));
                    }
                    if a.length != b.length {
                        return Err(format!("length table {:?} came back as {:?}", a.length, b.length));
                    }
                    Ok(())
                })
            }
            Val::Lmer(words, b) => {
                use debruijn::vmer::{Lmer1, Lmer2, Lmer3};
                use debruijn::Vmer;
                fn rt<V: Vmer + Serialize + DeserializeOwned + Debug>(b: &[u8], c: &SerdeCase, rec: &mut Rec) -> Result<(), Violation> {
                    let v = V::from_slice(b);
                    round_trip("serde Lmer", &v, c, rec, &|a: &V, x: &V| {
                        if a == x && a.len() == x.len() && (0..a.len()).all(|i| a.get(i) == x.get(i)) {
                            Ok(())
                        } else {
                            Err(format!("{:?} != {:?}", a, x))
                        }
                    })
                }
                match words {
                    1 => rt::<Lmer1>(b, c, rec),
                    2 => rt::<Lmer2>(b, c, rec),
                    _ => rt::<Lmer3>(b, c, rec),
                }
            }
            Val::BaseGraph(g) => with_k!(g.ktype.as_str(), [Kmer4, Kmer5, Kmer6, Kmer8, Kmer12, Kmer16, Kmer20, KmerK31, Kmer32, Kmer40, Kmer48, Kmer64], basegraph_rt, (g, c, rec)),
            Val::GraphData(g, kind) => with_k!(g.ktype.as_str(), [Kmer4, Kmer5, Kmer6, Kmer8, Kmer12, Kmer16, Kmer20, KmerK31, Kmer32, Kmer40, Kmer48, Kmer64], graph_data_rt, (g, *kind, c, rec)),
            Val::Graph(g, par) => with_k!(g.ktype.as_str(), [Kmer4, Kmer5, Kmer6, Kmer8, Kmer12, Kmer16, Kmer20, KmerK31, Kmer32, Kmer40, Kmer48, Kmer64], graph_rt, (g, *par, c, rec)),
        }
    }
    fn shrink(&self, c: &SerdeCase) -> Vec<SerdeCase> {
        let mut out = Vec::new();
        if !c.wplan.is_clean() {
            let mut x = c.clone();
            x.wplan = IoPlan::clean();
            out.push(x);
        }
        if !c.rplan.is_clean() {
            let mut x = c.clone();
            x.rplan = IoPlan::clean();
            out.push(x);
        }
        for (w, p) in [(true, &c.wplan), (false, &c.rplan)] {
            if p.short || p.interrupt {
                for (s, i) in [(false, p.interrupt), (p.short, false)] {
                    let mut x = c.clone();
                    let q = if w { &mut x.wplan } else { &mut x.rplan };
                    q.short = s;
                    q.interrupt = i;
                    out.push(x);
                }
            }
        }
        match &c.val {
            Val::BaseGraph(g) => {
                for s in shrink_graph_spec(g) {
                    let mut x = c.clone();
                    x.val = Val::BaseGraph(s);
                    out.push(x);
                }
            }
            Val::GraphData(g, k) => {
                for s in shrink_graph_spec(g) {
                    let mut x = c.clone();
                    x.val = Val::GraphData(s, *k);
                    out.push(x);
                }
            }
            Val::Graph(g, p) => {
                for s in shrink_graph_spec(g) {
                    let mut x = c.clone();
                    x.val = Val::Graph(s, *p);
                    out.push(x);
                }
                if *p {
                    let mut x = c.clone();
                    x.val = Val::Graph(g.clone(), false);
                    out.push(x);
                }
            }
            Val::DnaString(b) if !b.is_empty() => {
                let mut x = c.clone();
                x.val = Val::DnaString(b[..b.len() / 2].to_vec());
                out.push(x);
            }
            _ => {}
        }
        out
    }
    fn rule(&self) -> String {
        "case = (value: k-mer of one of 30 types (incl. user-declared VarIntKmer widths and a user-implemented Kmer of K = 7, 33, 80) | DnaString | Exts | Dir | PackedDnaStringSet | BaseGraph | DebruijnGraph from finish()/finish_serial() \
         on a pipeline-built graph, writer plan, reader plan); plans: clean, transparent (short I/O and/or Interrupted), hard (Err/Ok(0) at a byte offset, \
         flush-only error, early EOF); non-trivial = serialised form > 8 bytes and at least one stream deviated from the fault-free behaviour; \
         distinct = distinct stream traces (digest of every accept/return decision)"
            .into()
    }
    fn components(&self) -> Value {
        json!({"real": ["serde derives of IntKmer/VarIntKmer/DnaString/Exts/Dir/PackedDnaStringSet/BaseGraph/DebruijnGraph", "boomphf serde (index)", "serde_json"],
               "stub": [], "simulated": ["std::io::Write sink (SimWriter)", "std::io::Read source (SimReader)"]})
    }
}

// ------------------------------------------------------------------------------------
// GFA / JSON export

#[derive(Clone, Debug, Serialize, Deserialize, PartialEq)]
pub enum Device {
    Tmp,
    DevFull,
    /// RLIMIT_FSIZE at this many bytes (run in a child process)
    Rlimit(u64),
}

#[derive(Clone, Debug, Serialize, Deserialize, PartialEq)]
pub enum ExportOp {
    WriteGfa,
    JsonRest(bool),
    /// to_json_rest with `rest = Some({})`
    JsonEmptyRest,
    /// to_json_rest with a `rest` that is not an object: 0 null, 1 array, 2 string, 3 number
    JsonOddRest(u8),
    /// a write_gfa into a sink that fails at this byte offset, then a write_gfa of the same graph
    /// into a healthy sink on the same thread (state left behind by the failed export)
    GfaAfterFailure(usize),
    /// to_gfa_with_tags to X.gfa whose tag callback, at node `at mod len`, runs a complete
    /// to_gfa of the same graph to the sibling path X.plain (two exports interleaved through the
    /// only seam the exporter has: its callback)
    NestedTags(usize),
    ToGfaFile(Device),
    ToGfaTagsFile(Device),
}

#[derive(Clone, Debug, Serialize, Deserialize)]
pub struct ExportCase {
    pub graph: GraphSpec,
    pub parallel_finish: bool,
    pub op: ExportOp,
    pub plan: IoPlan,
    /// what the caller's payload formatter hands to the JSON export: 0 the number itself, 1 a string
    /// with backslashes and non-ASCII text, 2 a string with quotes and control characters, 3 an
    /// object, 4 null / float / array by value
    #[serde(default)]
    pub payload_kind: u8,
}

/// The caller-supplied payload formatter of the JSON export.
pub fn json_payload(kind: u8, d: &u16) -> Value {
    match kind {
        1 => Value::String(format!("lbl\\{}\\n/\u{e9}\u{1F9EC}", d)),
        2 => Value::String(format!("q\"{}\"\n\t\u{1}\\", d)),
        3 => json!({"count": *d, "path": "C:\\tmp\\x", "nested": [*d, null, true, {"k": "\"v\""}]}),
        4 => match d % 3 {
            0 => Value::Null,
            1 => json!(1.5e300),
            _ => json!([*d, "x"]),
        },
        _ => json!(*d),
    }
}

pub struct ExportCheck;

#[derive(Clone, Copy, PartialEq, Eq, PartialOrd, Ord, Debug)]
struct EndRef(usize, u8); // node, side: 0 left, 1 right, 2 either (palindromic single k-mer node)

fn is_pal_single<K: Kmer, D: Debug>(g: &DebruijnGraph<K, D>, i: usize) -> bool {
    if g.base.stranded {
        return false;
    }
    let b = node_bases(g, i);
    b.len() == K::k() && dna::is_palindrome(&b)
}

fn endref<K: Kmer, D: Debug>(g: &DebruijnGraph<K, D>, i: usize, d: Dir) -> EndRef {
    if is_pal_single(g, i) {
        EndRef(i, 2)
    } else {
        EndRef(i, simcore::model::dir_u(d))
    }
}

fn pair(a: EndRef, b: EndRef) -> (EndRef, EndRef) {
    if a <= b {
        (a, b)
    } else {
        (b, a)
    }
}

/// Expected adjacencies from `edges()`: unordered end pairs. Returns (pairs, symmetric?).
fn expected_adjacencies<K: Kmer, D: Debug>(g: &DebruijnGraph<K, D>) -> (BTreeMap<(EndRef, EndRef), u32>, bool) {
    let mut m: BTreeMap<(EndRef, EndRef), u32> = BTreeMap::new();
    let mut directed: Vec<(EndRef, EndRef)> = Vec::new();
    for i in 0..g.len() {
        let n = g.get_node(i);
        for d in [Dir::Left, Dir::Right] {
            for (t, td, _) in n.edges(d) {
                let a = endref(g, i, d);
                let b = endref(g, t, td);
                *m.entry(pair(a, b)).or_insert(0) += 1;
                directed.push((a, b));
            }
        }
    }
    let mut symmetric = true;
    for (a, b) in &directed {
        if !directed.iter().any(|(x, y)| x == b && y == a) {
            symmetric = false;
            break;
        }
    }
    (m, symmetric)
}

pub fn check_gfa<K: Kmer, D: Debug>(text: &[u8], g: &DebruijnGraph<K, D>, tags: Option<&dyn Fn(usize) -> String>, rec: &mut Rec) -> Result<(), Violation> {
    let site = "GFA export";
    let text = std::str::from_utf8(text).map_err(|_| Violation::new("gfa-malformed", site, "output is not UTF-8".into()))?;
    let mut lines = text.split('\n').collect::<Vec<_>>();
    if lines.last() == Some(&"") {
        lines.pop();
    } else {
        return Err(Violation::new("gfa-malformed", site, "output does not end with a newline".into()));
    }
    // the property does not fix the header's content, only that the file is GFA
    if !lines.first().map(|l| *l == "H" || l.starts_with("H\t")).unwrap_or(false) {
        return Err(Violation::new("gfa-malformed", site, format!("first line is {:?}, not a GFA header", lines.first())));
    }
    let n = g.len();
    let k = K::k();
    let seqs: Vec<Vec<u8>> = (0..n).map(|i| node_bases(g, i)).collect();
    let mut seen_s = vec![0u32; n];
    let mut links: BTreeMap<(EndRef, EndRef), u32> = BTreeMap::new();
    for l in &lines[1..] {
        let f: Vec<&str> = l.split('\t').collect();
        match f[0] {
            "S" => {
                if f.len() < 3 {
                    return Err(Violation::new("gfa-malformed", site, format!("short S line {:?}", l)));
                }
                let id: usize = f[1].parse().map_err(|_| Violation::new("gfa-malformed", site, format!("bad S id {:?}", l)))?;
                if id >= n {
                    return Err(Violation::new("gfa-node", site, format!("S line for node {} but the graph has {} nodes", id, n)));
                }
                seen_s[id] += 1;
                if f[2] != dna::to_ascii(&seqs[id]) {
                    return Err(Violation::new("gfa-node", site, format!("S line of node {} has sequence {} but the node is {}", id, f[2], dna::to_ascii(&seqs[id]))));
                }
                if let Some(t) = tags {
                    let want = t(id);
                    if f.len() < 4 || f[3..].join("\t") != want {
                        return Err(Violation::new("gfa-node", site, format!("S line of node {} has tags {:?}, tag function returned {:?}", id, &f[3..], want)));
                    }
                }
            }
            "L" => {
                if f.len() < 6 {
                    return Err(Violation::new("gfa-malformed", site, format!("bad L line {:?}", l)));
                }
                let a: usize = f[1].parse().map_err(|_| Violation::new("gfa-malformed", site, format!("bad L line {:?}", l)))?;
                let b: usize = f[3].parse().map_err(|_| Violation::new("gfa-malformed", site, format!("bad L line {:?}", l)))?;
                if a >= n || b >= n || !matches!(f[2], "+" | "-") || !matches!(f[4], "+" | "-") {
                    return Err(Violation::new("gfa-malformed", site, format!("bad L line {:?}", l)));
                }
                if f[5] != format!("{}M", k - 1) {
                    return Err(Violation::new("gfa-link-overlap", site, format!("L line {:?}: overlap is not {}M", l, k - 1)));
                }
                let sa = if f[2] == "+" { seqs[a].clone() } else { dna::rc(&seqs[a]) };
                let sb = if f[4] == "+" { seqs[b].clone() } else { dna::rc(&seqs[b]) };
                if sa[sa.len() - (k - 1)..] != sb[..k - 1] {
                    return Err(Violation::new(
                        "gfa-link-overlap",
                        site,
                        format!("L line {:?}: oriented segments {} and {} do not overlap by K-1", l, dna::to_ascii(&sa), dna::to_ascii(&sb)),
                    ));
                }
                // must be an adjacency reported by edges() with these orientations
                let da = if f[2] == "+" { Dir::Right } else { Dir::Left };
                let db = if f[4] == "+" { Dir::Left } else { Dir::Right };
                let reported = g.get_node(a).edges(da).iter().any(|(t, td, _)| *t == b && simcore::model::dir_u(*td) == simcore::model::dir_u(db))
                    || g.get_node(b).edges(db).iter().any(|(t, td, _)| *t == a && simcore::model::dir_u(*td) == simcore::model::dir_u(da));
                if !reported {
                    return Err(Violation::new("gfa-link-spurious", site, format!("L line {:?} is not an adjacency reported by edges()", l)));
                }
                *links.entry(pair(endref(g, a, da), endref(g, b, db))).or_insert(0) += 1;
            }
            _ => return Err(Violation::new("gfa-malformed", site, format!("unknown line {:?}", l))),
        }
    }
    for (i, c) in seen_s.iter().enumerate() {
        if *c != 1 {
            return Err(Violation::new("gfa-node", site, format!("node {} has {} S lines", i, c)));
        }
    }
    let (want, symmetric) = expected_adjacencies(g);
    if !symmetric {
        // completeness is only defined on a symmetric edge relation (C03's business otherwise)
        rec.count("skipped_completeness_asymmetric_edges");
        return Ok(());
    }
    rec.count("gfa_completeness_checked");
    for (p, _) in &want {
        let got = links.get(p).cloned().unwrap_or(0);
        let ambiguous = p.0 .1 == 2 || p.1 .1 == 2;
        if p.0 == p.1 {
            rec.count("reach_hairpin_self_link");
            if p.0 .1 == 1 {
                rec.count("reach_right_side_hairpin");
            }
        } else if p.0 .0 == p.1 .0 {
            rec.count("reach_circular_self_link");
        }
        let ok = if ambiguous { got >= 1 } else { got == 1 };
        if !ok {
            let side = |e: EndRef| match e.1 {
                0 => "left",
                1 => "right",
                _ => "either",
            };
            let class = if got == 0 { "gfa-link-missing" } else { "gfa-link-duplicated" };
            let which = if p.0 == p.1 {
                if p.0 .1 == 1 {
                    "right-side hairpin self-link"
                } else {
                    "left-side hairpin self-link"
                }
            } else if p.0 .0 == p.1 .0 {
                "circular self-link"
            } else {
                "link between two nodes"
            };
            return Err(Violation::new(
                class,
                &format!("GFA export: {}", which),
                format!(
                    "adjacency node {} {} end -- node {} {} end is listed {} times in the GFA (edges() reports it)",
                    p.0 .0,
                    side(p.0),
                    p.1 .0,
                    side(p.1),
                    got
                ),
            ));
        }
    }
    Ok(())
}

pub fn check_json<K: Kmer>(text: &[u8], g: &DebruijnGraph<K, u16>, rest: &Option<Value>, payload_kind: u8) -> Result<(), Violation> {
    let site = "JSON export";
    let v: Value = serde_json::from_slice(text).map_err(|e| {
        let t = String::from_utf8_lossy(text);
        let ctx: String = t.chars().rev().take(60).collect::<String>().chars().rev().collect();
        Violation::new("json-malformed", site, format!("export does not parse as JSON: {} (ends with {:?})", e, ctx))
    })?;
    let nodes = v.get("nodes").and_then(|x| x.as_array()).ok_or_else(|| Violation::new("json-shape", site, "no nodes array".into()))?;
    let links = v.get("links").and_then(|x| x.as_array()).ok_or_else(|| Violation::new("json-shape", site, "no links array".into()))?;
    if nodes.len() != g.len() {
        return Err(Violation::new("json-nodes", site, format!("{} node entries for {} nodes", nodes.len(), g.len())));
    }
    // ids may be strings or numbers; fields beyond the id are checked when present
    let as_id = |x: Option<&Value>| -> Option<String> {
        match x {
            Some(Value::String(s)) => Some(s.clone()),
            Some(Value::Number(n)) => Some(n.to_string()),
            _ => None,
        }
    };
    let mut ids: Vec<String> = nodes.iter().filter_map(|nd| as_id(nd.get("id"))).collect();
    ids.sort();
    let mut want_ids: Vec<String> = (0..g.len()).map(|i| i.to_string()).collect();
    want_ids.sort();
    if ids != want_ids {
        return Err(Violation::new("json-nodes", site, format!("node ids {:?} are not exactly 0..{}", ids.iter().take(8).collect::<Vec<_>>(), g.len())));
    }
    for nd in nodes.iter() {
        let i: usize = as_id(nd.get("id")).unwrap().parse().unwrap();
        let len_ok = nd.get("L").map(|x| x.as_u64() == Some(g.get_node(i).len() as u64)).unwrap_or(true);
        let d_ok = nd.get("D").map(|x| *x == json_payload(payload_kind, g.get_node(i).data())).unwrap_or(true);
        if !len_ok || !d_ok {
            return Err(Violation::new("json-nodes", site, format!("node entry {} is {}", i, nd)));
        }
    }
    let mut want: Vec<(String, String, String)> = Vec::new();
    for i in 0..g.len() {
        for (t, d, _) in g.get_node(i).r_edges() {
            want.push((i.to_string(), t.to_string(), if simcore::model::dir_u(d) == 0 { "L".into() } else { "R".into() }));
        }
    }
    let mut got: Vec<(String, String, String)> = Vec::new();
    for l in links {
        let s = |k: &str| as_id(l.get(k));
        match (s("source"), s("target"), s("D")) {
            (Some(a), Some(b), Some(c)) => got.push((a, b, c)),
            _ => return Err(Violation::new("json-shape", site, format!("bad link entry {}", l))),
        }
    }
    want.sort();
    got.sort();
    if want != got {
        return Err(Violation::new("json-links", site, format!("{} link entries, graph has {} right-going links", got.len(), want.len())));
    }
    if let Some(Value::Object(o)) = rest {
        for (k, val) in o {
            if v.get(k) != Some(val) {
                return Err(Violation::new("json-rest", site, format!("extra key {:?} missing or changed", k)));
            }
        }
    }
    Ok(())
}

fn tmp_path(tag: &str) -> std::path::PathBuf {
    let dir = std::path::PathBuf::from(std::env::var("VERIF_TMP").unwrap_or_else(|_| "/verif/target/tmp".into()));
    let _ = std::fs::create_dir_all(&dir);
    dir.join(format!("{}-{}-{:?}.gfa", tag, std::process::id(), std::thread::current().id()))
}

fn tag_fn(id: usize) -> String {
    format!("KC:i:{}\tXX:Z:n{}", id * 7 + 1, id)
}

/// Result of a file export executed here or in a child: (returned Ok?, file content if readable)
pub fn file_export<K: Kmer + Send + Sync>(g: &DebruijnGraph<K, u16>, tags: bool, path: &std::path::Path) -> Result<bool, (String, String)> {
    guarded(|| {
        if tags {
            g.to_gfa_with_tags(path, |n| tag_fn(n.node_id)).is_ok()
        } else {
            g.to_gfa(path).is_ok()
        }
    })
}

fn run_export<K: Kmer + Send + Sync>(c: &ExportCase, rec: &mut Rec) -> Result<(), Violation> {
    let g = build::<K>(&c.graph, c.parallel_finish);
    rec.ev("graph", g.len() as u64, c.parallel_finish as u64);
    if g.len() == 0 {
        rec.count("reach_empty_graph");
    }
    if g.len() == 1 {
        rec.count("reach_single_node_graph");
    }
    if (0..g.len()).any(|i| g.get_node(i).len() > 65_536) {
        rec.count("reach_node_longer_than_65536");
    }
    let total_r: usize = (0..g.len()).map(|i| g.get_node(i).r_edges().len()).sum();
    if g.len() > 0 && total_r == 0 {
        rec.count("reach_link_free_graph");
    }
    if g.len() > 1 && total_r > 0 && g.get_node(g.len() - 1).r_edges().is_empty() {
        rec.count("reach_last_node_without_right_links");
    }
    // fault-free reference bytes
    let mut clean_gfa: Vec<u8> = Vec::new();
    g.write_gfa(&mut clean_gfa).map_err(|e| Violation::new("panic", "write_gfa", format!("Vec sink failed: {}", e)))?;
    match &c.op {
        ExportOp::WriteGfa => {
            rec.choice("plan_hard", c.plan.hard.is_some() as u64, c.plan.is_clean());
            let mut w = SimWriter::new(c.plan.clone());
            let res = guarded(|| g.write_gfa(&mut w));
            let fired = w.hard_fired();
            let data = w.finish(rec);
            match res {
                Ok(Ok(())) => {
                    if data != clean_gfa {
                        let class = if c.plan.hard.is_some() { "ok-with-missing-data" } else { "stream-bytes-differ" };
                        return Err(Violation::new(
                            class,
                            "write_gfa",
                            format!("returned Ok; sink holds {} bytes, fault-free output is {} bytes (hard fault delivered: {})", data.len(), clean_gfa.len(), fired),
                        ));
                    }
                    check_gfa(&data, &g, None, rec)?;
                }
                Ok(Err(e)) => {
                    if c.plan.hard.is_none() {
                        return Err(Violation::new("transparent-fault-failed", "write_gfa", format!("failed under short writes / Interrupted only: {}", e)));
                    }
                    rec.count("hard_write_reported");
                }
                Err((loc, msg)) => {
                    if c.plan.hard.is_none() {
                        return Err(Violation::new("panic", "write_gfa", format!("panicked at {}: {}", loc, msg)));
                    }
                    rec.count("hard_write_panicked");
                }
            }
        }
        ExportOp::GfaAfterFailure(off) => {
            rec.choice("failed_export_first", *off as u64, false);
            let mut p = IoPlan::clean();
            p.hard = Some(Hard::ErrAt(*off));
            let mut w = SimWriter::new(p);
            let first = guarded(|| g.write_gfa(&mut w));
            let fired = w.hard_fired();
            let _ = w.finish(rec);
            if fired {
                rec.count("env_export_after_failed_export");
            }
            if let Ok(Ok(())) = first {
                // the offset was beyond the output: nothing failed; still fine
            }
            let mut second: Vec<u8> = Vec::new();
            match guarded(|| g.write_gfa(&mut second)) {
                Ok(Ok(())) => {
                    if second != clean_gfa {
                        return Err(Violation::new(
                            "stream-bytes-differ",
                            "write_gfa after a failed write_gfa",
                            format!("the export following a failed one holds {} bytes, a fresh export gives {}", second.len(), clean_gfa.len()),
                        ));
                    }
                }
                Ok(Err(e)) => return Err(Violation::new("healthy-disk-failed", "write_gfa after a failed write_gfa", format!("{}", e))),
                Err((loc, msg)) => return Err(Violation::new("panic", "write_gfa after a failed write_gfa", format!("panicked at {}: {}", loc, msg))),
            }
        }
        ExportOp::JsonRest(_) | ExportOp::JsonEmptyRest | ExportOp::JsonOddRest(_) => {
            rec.choice("plan_hard", c.plan.hard.is_some() as u64, c.plan.is_clean());
            let rest = match &c.op {
                ExportOp::JsonRest(true) => Some(json!({"alpha": [1, 2, 3], "beta": {"x": "y"}})),
                ExportOp::JsonEmptyRest => {
                    rec.count("reach_json_empty_rest_object");
                    Some(json!({}))
                }
                ExportOp::JsonOddRest(kind) => {
                    rec.count("reach_json_non_object_rest");
                    Some(match kind % 4 {
                        0 => Value::Null,
                        1 => json!([1, "two", {"three": 3}]),
                        2 => json!("just a string"),
                        _ => json!(42),
                    })
                }
                _ => None,
            };
            let mut clean: Vec<u8> = Vec::new();
            let pk = c.payload_kind;
            rec.choice("json_payload_kind", pk as u64, pk == 0);
            let r0 = guarded(|| g.to_json_rest(|d: &u16| json_payload(pk, d), &mut clean, rest.clone()));
            if let Err((loc, msg)) = r0 {
                return Err(Violation::new("panic", "to_json_rest", format!("panicked on a Vec sink at {}: {}", loc, msg)));
            }
            check_json(&clean, &g, &rest, pk)?;
            let mut w = SimWriter::new(c.plan.clone());
            let res = guarded(|| g.to_json_rest(|d: &u16| json_payload(pk, d), &mut w, rest.clone()));
            let data = w.finish(rec);
            match res {
                Ok(()) => {
                    if data != clean {
                        let class = if c.plan.hard.is_some() { "ok-with-missing-data" } else { "stream-bytes-differ" };
                        return Err(Violation::new(class, "to_json_rest", format!("returned normally; sink holds {} bytes, fault-free output is {}", data.len(), clean.len())));
                    }
                }
                Err((loc, msg)) => {
                    if c.plan.hard.is_none() {
                        return Err(Violation::new("panic", "to_json_rest", format!("panicked under short writes / Interrupted only at {}: {}", loc, msg)));
                    }
                    rec.count("hard_write_panicked");
                }
            }
        }
        ExportOp::NestedTags(at) => {
            rec.choice("nested_export", *at as u64, false);
            if g.len() == 0 {
                return Ok(());
            }
            let outer = tmp_path("nest");
            let inner = outer.with_extension("plain");
            let trigger = at % g.len();
            let inner_result: std::cell::RefCell<Option<bool>> = std::cell::RefCell::new(None);
            let r = guarded(|| {
                g.to_gfa_with_tags(&outer, |n| {
                    if n.node_id == trigger {
                        *inner_result.borrow_mut() = Some(g.to_gfa(&inner).is_ok());
                    }
                    tag_fn(n.node_id)
                })
                .is_ok()
            });
            let outer_bytes = std::fs::read(&outer).unwrap_or_default();
            let inner_bytes = std::fs::read(&inner).unwrap_or_default();
            let _ = std::fs::remove_file(&outer);
            let _ = std::fs::remove_file(&inner);
            let _ = std::fs::remove_file(outer.with_extension("tmp"));
            rec.count("env_nested_exports");
            match r {
                Ok(true) => {}
                Ok(false) => return Err(Violation::new("healthy-disk-failed", "to_gfa_with_tags interleaved with to_gfa", "outer export returned Err on a healthy temp dir".into())),
                Err((loc, msg)) => return Err(Violation::new("panic", "to_gfa_with_tags interleaved with to_gfa", format!("panicked at {}: {}", loc, msg))),
            }
            if *inner_result.borrow() != Some(true) {
                return Err(Violation::new("healthy-disk-failed", "to_gfa_with_tags interleaved with to_gfa", format!("inner export result {:?}", inner_result.borrow())));
            }
            if inner_bytes != clean_gfa {
                return Err(Violation::new(
                    "file-bytes-differ",
                    "to_gfa_with_tags interleaved with to_gfa",
                    format!("the inner export's file has {} bytes, write_gfa gives {}", inner_bytes.len(), clean_gfa.len()),
                ));
            }
            let tf: &dyn Fn(usize) -> String = &tag_fn;
            check_gfa(&outer_bytes, &g, Some(tf), rec).map_err(|mut v| {
                v.site = "to_gfa_with_tags interleaved with to_gfa".into();
                v
            })?;
        }
        ExportOp::ToGfaFile(dev) | ExportOp::ToGfaTagsFile(dev) => {
            let tags = matches!(c.op, ExportOp::ToGfaTagsFile(_));
            let site = if tags { "to_gfa_with_tags" } else { "to_gfa" };
            let mut clean = clean_gfa.clone();
            if tags {
                // reference with tags: S lines get the tag suffix
                let t = String::from_utf8(clean_gfa.clone()).unwrap();
                let mut out = String::new();
                for l in t.lines() {
                    if let Some(restl) = l.strip_prefix("S\t") {
                        let id: usize = restl.split('\t').next().unwrap().parse().unwrap();
                        out.push_str(&format!("{}\t{}\n", l, tag_fn(id)));
                    } else {
                        out.push_str(l);
                        out.push('\n');
                    }
                }
                clean = out.into_bytes();
            }
            match dev {
                Device::Tmp => {
                    rec.choice("device", 0, true);
                    let p = tmp_path("tmp");
                    // half of the time the destination already holds a longer, older export
                    let stale = c.plan.seed % 2 == 1;
                    if stale {
                        let mut old = clean.clone();
                        old.extend_from_slice(b"S\t999999\tACGTACGTACGT\nL\t999999\t+\t999999\t+\t3M\n");
                        old.extend_from_slice(&clean);
                        let _ = std::fs::write(&p, &old);
                        rec.count("env_destination_holds_older_longer_file");
                    }
                    let r = file_export(&g, tags, &p);
                    let content = std::fs::read(&p).unwrap_or_default();
                    let _ = std::fs::remove_file(&p);
                    match r {
                        Ok(true) => {
                            if content != clean {
                                return Err(Violation::new("file-bytes-differ", site, format!("file has {} bytes, write_gfa gives {}", content.len(), clean.len())));
                            }
                            let tf: &dyn Fn(usize) -> String = &tag_fn;
                            check_gfa(&content, &g, if tags { Some(tf) } else { None }, rec)?;
                        }
                        Ok(false) => return Err(Violation::new("healthy-disk-failed", site, "returned Err on a healthy temp dir".into())),
                        Err((loc, msg)) => return Err(Violation::new("panic", site, format!("panicked at {}: {}", loc, msg))),
                    }
                    rec.nontrivial = false;
                    return Ok(());
                }
                Device::DevFull => {
                    rec.choice("device", 1, false);
                    // The exporter is handed a SYMLINK to /dev/full, never the device path itself: an
                    // exporter that stages to a sibling file and renames it into place would otherwise
                    // replace the device node (it happened: a seeded change did exactly that as root).
                    use std::os::unix::fs::FileTypeExt;
                    let is_dev = std::fs::metadata("/dev/full").map(|m| m.file_type().is_char_device()).unwrap_or(false);
                    if !is_dev {
                        rec.count("skipped_dev_full_not_a_device");
                        rec.nontrivial = false;
                        return Ok(());
                    }
                    rec.count("fault_disk_full");
                    let link = tmp_path("devfull");
                    let _ = std::fs::remove_file(&link);
                    if std::os::unix::fs::symlink("/dev/full", &link).is_err() {
                        rec.count("skipped_dev_full_no_symlink");
                        return Ok(());
                    }
                    let r = file_export(&g, tags, &link);
                    // An exporter that staged elsewhere and renamed over the link did persist the data:
                    // that is not "success with missing data".
                    let replaced = std::fs::symlink_metadata(&link).map(|m| m.file_type().is_file()).unwrap_or(false);
                    let persisted = replaced && std::fs::read(&link).map(|b| b == clean).unwrap_or(false);
                    // clean up whatever is at the link path now (the link, or a file renamed over it)
                    let _ = std::fs::remove_file(&link);
                    let _ = std::fs::remove_file(link.with_extension("tmp"));
                    if persisted {
                        rec.count("device_bypassed_by_staging_and_rename");
                        return Ok(());
                    }
                    match r {
                        Ok(true) => {
                            return Err(Violation::new(
                                "ok-with-missing-data",
                                &format!("{} on a full disk", site),
                                format!("returned Ok(()) although the device accepted none of the {} bytes", clean.len()),
                            ))
                        }
                        Ok(false) => rec.count("hard_write_reported"),
                        Err(_) => rec.count("hard_write_panicked"),
                    }
                }
                Device::Rlimit(limit) => {
                    rec.choice("device_rlimit", *limit, false);
                    rec.count("fault_file_size_limit");
                    let p = tmp_path("rl");
                    let exe = std::env::current_exe().unwrap();
                    let spec = serde_json::to_string(&json!({"graph": c.graph, "parallel": c.parallel_finish, "tags": tags, "limit": limit, "path": p})).unwrap();
                    // the spec can be large (a 70 kb read): hand it over in a file, not in argv
                    let spec_path = p.with_extension("spec");
                    if std::fs::write(&spec_path, &spec).is_err() {
                        return Err(Violation::new("harness", "c20-file-child", "cannot write the child's spec file".into()));
                    }
                    let out = std::process::Command::new(exe).arg("c20-file-child").arg(&spec_path).output();
                    let _ = std::fs::remove_file(&spec_path);
                    let content = std::fs::read(&p).unwrap_or_default();
                    let _ = std::fs::remove_file(&p);
                    let so = match out {
                        Ok(o) => String::from_utf8_lossy(&o.stdout).trim().to_string(),
                        Err(e) => {
                            return Err(Violation::new("harness", "c20-file-child", format!("cannot spawn child: {}", e)));
                        }
                    };
                    rec.evs("child", &so);
                    match so.as_str() {
                        "OK" => {
                            if content != clean {
                                return Err(Violation::new(
                                    "ok-with-missing-data",
                                    &format!("{} under a file-size limit", site),
                                    format!("returned Ok(()) but the file holds {} of {} bytes (limit {})", content.len(), clean.len(), limit),
                                ));
                            }
                        }
                        "ERR" => rec.count("hard_write_reported"),
                        "PANIC" => rec.count("hard_write_panicked"),
                        other => return Err(Violation::new("harness", "c20-file-child", format!("child said {:?}", other))),
                    }
                }
            }
        }
    }
    rec.nontrivial = g.len() >= 1;
    Ok(())
}

/// Child process for the RLIMIT_FSIZE device: limits apply to the whole process.
pub fn file_child(spec_path: &str) -> i32 {
    let spec = std::fs::read_to_string(spec_path).expect("spec file");
    let v: Value = serde_json::from_str(&spec).expect("spec");
    let graph: GraphSpec = serde_json::from_value(v["graph"].clone()).expect("graph");
    let parallel = v["parallel"].as_bool().unwrap();
    let tags = v["tags"].as_bool().unwrap();
    let limit = v["limit"].as_u64().unwrap();
    let path = std::path::PathBuf::from(v["path"].as_str().unwrap());
    fn go<K: Kmer + Send + Sync>(graph: &GraphSpec, parallel: bool, tags: bool, limit: u64, path: &std::path::Path) -> i32 {
        let g = build::<K>(graph, parallel);
        unsafe {
            libc::signal(libc::SIGXFSZ, libc::SIG_IGN);
            let rl = libc::rlimit {
                rlim_cur: limit,
                rlim_max: limit,
            };
            libc::setrlimit(libc::RLIMIT_FSIZE, &rl);
        }
        match file_export(&g, tags, path) {
            Ok(true) => println!("OK"),
            Ok(false) => println!("ERR"),
            Err(_) => println!("PANIC"),
        }
        0
    }
    with_k!(graph.ktype.as_str(), [Kmer4, Kmer5, Kmer6, Kmer8, Kmer12, Kmer16, Kmer20, KmerK31, Kmer32, Kmer40, Kmer48, Kmer64], go, (&graph, parallel, tags, limit, &path))
}

impl Harness for ExportCheck {
    type Case = ExportCase;
    fn property(&self) -> &'static str {
        "C20"
    }
    fn name(&self) -> &'static str {
        "c20-export"
    }
    fn engine(&self) -> &'static str {
        "S"
    }
    fn cases(&self, tier: Tier) -> u64 {
        match tier {
            Tier::Quick => 200_000,
            Tier::Thorough => 10_000_000,
        }
    }
    fn gen(&self, rng: &mut Rng, tier: Tier) -> ExportCase {
        // small K so that hairpins, circles and palindromes are common
        let kt: &[&str] = if rng.chance(2, 3) { &["Kmer4", "Kmer6", "Kmer8"] } else { &KTYPES };
        // larger outputs (beyond one BufWriter buffer) now and then
        let long = rng.chance(1, if tier == Tier::Thorough { 40 } else { 400 });
        let mut graph = if long { gen_graph_spec(rng, kt, 30, 1200) } else { gen_graph_spec(rng, kt, 8, 140) };
        if rng.chance(1, 20) {
            graph.reads.clear(); // empty graph
        }
        if rng.chance(1, if tier == Tier::Thorough { 800 } else { 4000 }) {
            // one unitig longer than 2^16 bases
            graph.ktype = rng.pick(&["Kmer16", "Kmer32", "KmerK31"]).to_string();
            let hl = 65_536 + rng.range(20, 5000);
            graph.reads = vec![dna::random_seq(rng, hl, &[0, 1, 2, 3])];
            graph.min_count = 1;
            graph.combine_parts = 0;
        }
        if rng.chance(1, 4) {
            graph.stranded = false;
        }
        let op = match rng.below(43) {
            40 => {
                if rng.chance(1, 2) {
                    ExportOp::JsonEmptyRest
                } else {
                    ExportOp::JsonOddRest(rng.below(4) as u8)
                }
            }
            0 | 1 => ExportOp::GfaAfterFailure(rng.range(0, 400)),
            41 | 42 => ExportOp::NestedTags(rng.below(1 << 16)),
            0..=19 => ExportOp::WriteGfa,
            20..=33 => ExportOp::JsonRest(rng.chance(1, 2)),
            34 | 35 => ExportOp::ToGfaFile(Device::Tmp),
            36 => ExportOp::ToGfaTagsFile(Device::Tmp),
            37 => ExportOp::ToGfaFile(Device::DevFull),
            38 => ExportOp::ToGfaTagsFile(Device::DevFull),
            _ => {
                let lim = if rng.chance(1, 3) { rng.range(4000, 20_000) } else { rng.range(0, 400) } as u64;
                if rng.chance(1, 2) {
                    ExportOp::ToGfaFile(Device::Rlimit(lim))
                } else {
                    ExportOp::ToGfaTagsFile(Device::Rlimit(lim))
                }
            }
        };
        ExportCase {
            graph,
            parallel_finish: rng.chance(1, 2),
            op,
            plan: gen_plan(rng, true),
            payload_kind: if rng.chance(1, 3) { rng.range(1, 4) as u8 } else { 0 },
        }
    }
    fn run(&self, c: &ExportCase, rec: &mut Rec) -> Result<(), Violation> {
        with_k!(c.graph.ktype.as_str(), [Kmer4, Kmer5, Kmer6, Kmer8, Kmer12, Kmer16, Kmer20, KmerK31, Kmer32, Kmer40, Kmer48, Kmer64], run_export, (c, rec))
    }
    fn shrink(&self, c: &ExportCase) -> Vec<ExportCase> {
        let mut out = Vec::new();
        if !c.plan.is_clean() {
            let mut x = c.clone();
            x.plan = IoPlan::clean();
            out.push(x);
            if c.plan.short || c.plan.interrupt {
                for (s, i) in [(false, c.plan.interrupt), (c.plan.short, false)] {
                    let mut x = c.clone();
                    x.plan.short = s;
                    x.plan.interrupt = i;
                    out.push(x);
                }
            }
        }
        for g in shrink_graph_spec(&c.graph) {
            let mut x = c.clone();
            x.graph = g;
            out.push(x);
        }
        if c.parallel_finish {
            let mut x = c.clone();
            x.parallel_finish = false;
            out.push(x);
        }
        if c.op == ExportOp::JsonRest(true) {
            let mut x = c.clone();
            x.op = ExportOp::JsonRest(false);
            out.push(x);
        }
        if c.payload_kind != 0 {
            let mut x = c.clone();
            x.payload_kind = 0;
            out.push(x);
        }
        out
    }
    fn rule(&self) -> String {
        "case = (pipeline-built graph incl. empty / single-node / link-free / hairpin / circular / palindromic, op: write_gfa | to_json_rest(None|Some) | \
         to_gfa(path) | to_gfa_with_tags(path), sink plan or device: clean, transparent (short writes, Interrupted), hard (Err/Ok(0) at offset, flush-only error), \
         temp dir, /dev/full, RLIMIT_FSIZE in a child process); oracle = parsed GFA / JSON against edges() and node sequences, byte identity with the fault-free run, \
         never Ok with missing data; non-trivial = graph has >= 1 node and the sink/device deviated from fault-free; distinct = distinct stream/device traces"
            .into()
    }
    fn components(&self) -> Value {
        json!({"real": ["DebruijnGraph::{write_gfa,to_gfa,to_gfa_with_tags,to_json_rest}", "std BufWriter/File and the kernel (tmp dir, /dev/full, RLIMIT_FSIZE)", "serde_json parser as JSON oracle"],
               "stub": [], "simulated": ["std::io::Write sink (SimWriter)"]})
    }
}
