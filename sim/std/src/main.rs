//! Engine S: the repository's real code and real boomphf, every worker inside a private
//! one-thread rayon pool (no scheduling freedom left => deterministic), all environment
//! choices (stream behaviour, arrival orders, budgets, CPU dispatch, consumer histories)
//! drawn from one seed.

mod c04;
mod c05;
mod c16;
mod c18;
mod c19large;
mod c20;
mod ktypes;
mod oracle_selftest;

use simcore::driver::{self, Harness, Opts};

fn wrap(f: &mut (dyn FnMut() + Send)) {
    // private 1-thread pool: `finish()` inside a case runs on this worker only
    let pool = rayon::ThreadPoolBuilder::new().num_threads(1).build().expect("rayon pool");
    pool.install(|| f());
}

fn run<H: Harness>(h: H, opts: &Opts) -> i32 {
    driver::search(&h, opts, &wrap)
}

fn main() {
    let args: Vec<String> = std::env::args().collect();
    if args.len() < 2 {
        eprintln!("usage: sim-std <check> [--tier quick|thorough] [--seed N] [--cases N] [--workers N] [--replay FILE]");
        std::process::exit(2);
    }
    driver::install_panic_hook();
    let check = args[1].as_str();
    if check == "c16-hashn-print" {
        // fresh-process leg of the cross-process determinism check
        let seed: u64 = args.get(2).and_then(|s| s.parse().ok()).unwrap_or(1);
        println!("{:016x}", c16::hashn_family_digest(seed, 400));
        return;
    }
    if check == "c16-first-use-child" {
        let seed: u64 = args.get(2).and_then(|s| s.parse().ok()).unwrap_or(1);
        std::process::exit(c16::first_use_child(seed));
    }
    if check == "c19-first-use-child" {
        std::process::exit(c19large::first_use_child(&args[2]));
    }
    if check == "oracle-selftest" {
        let seed: u64 = args.get(2).and_then(|s| s.parse().ok()).unwrap_or(1);
        std::process::exit(oracle_selftest::run(seed));
    }
    if check == "c20-file-child" {
        std::process::exit(c20::file_child(&args[2]));
    }
    let opts = Opts::from_args(&args[2..]);
    let code = match check {
        "c04-pipeline" => run(c04::C04, &opts),
        "c05-budget" => run(c05::C05, &opts),
        "c05-unhooked" => c05::unhooked(&opts),
        "c16-ingest" => run(c16::C16, &opts),
        "c16-xproc" => c16::xproc(&opts),
        "c20-serde" => run(c20::SerdeCheck, &opts),
        "c20-export" => run(c20::ExportCheck, &opts),
        "c19-large" => c19large::run(&opts),
        "c19-first-use" => c19large::first_use_only(&opts),
        "c18-consumer" => run(c18::Consumer, &opts),
        "c18-mphf-serial" => run(c18::MphfSerial, &opts),
        _ => {
            eprintln!("unknown check {}", check);
            2
        }
    };
    std::process::exit(code);
}
