//! Observation helpers over the real graph types: plain-string views, the full query
//! transcript of a graph (every user-visible answer, used for differential oracles), a
//! tiny reference index (BTreeMap from terminal k-mers to node ids), and the canonical
//! form of a compressed graph up to node order, node orientation and cycle cut.

use debruijn::graph::DebruijnGraph;
use debruijn::{Dir, Exts, Kmer, Mer, Vmer};
use std::collections::{BTreeMap, BTreeSet};
use std::fmt::Debug;

use crate::dna;

pub fn kmer_bases<K: Kmer>(k: &K) -> Vec<u8> {
    (0..K::k()).map(|i| k.get(i)).collect()
}

pub fn kmer_from_bases<K: Kmer>(b: &[u8]) -> K {
    let mut k = K::empty();
    for (i, v) in b.iter().enumerate().take(K::k()) {
        k.set_mut(i, *v);
    }
    k
}

pub fn node_bases<K: Kmer, D: Debug>(g: &DebruijnGraph<K, D>, i: usize) -> Vec<u8> {
    let s = g.get_node(i).sequence();
    (0..s.len()).map(|p| s.get(p)).collect()
}

pub fn dir_u(d: Dir) -> u8 {
    match d {
        Dir::Left => 0,
        Dir::Right => 1,
    }
}

fn fmt_edges(e: &[(usize, Dir, bool)]) -> String {
    let mut s = String::new();
    for (t, d, f) in e {
        s.push_str(&format!("({},{},{})", t, dir_u(*d), *f as u8));
    }
    s
}

fn fmt_link(l: Option<(usize, Dir, bool)>) -> String {
    match l {
        None => "-".to_string(),
        Some((t, d, f)) => format!("({},{},{})", t, dir_u(d), f as u8),
    }
}

/// Probe k-mers for link lookups: every node's first and last k-mer, their reverse
/// complements, all eight one-base extensions of each (mostly absent k-mers), and `extra`.
pub fn probes<K: Kmer, D: Debug>(g: &DebruijnGraph<K, D>, extra: &[K]) -> Vec<K> {
    let mut out: Vec<K> = Vec::new();
    for i in 0..g.len() {
        let s = g.get_node(i).sequence();
        let (f, l): (K, K) = (s.first_kmer(), s.last_kmer());
        for k in [f, l, f.rc(), l.rc()] {
            out.push(k);
            for b in 0..4u8 {
                out.push(k.extend_left(b));
                out.push(k.extend_right(b));
            }
        }
        // near misses of the terminal k-mers: one base substituted at the first, middle and last position
        for k in [f, l] {
            for pos in [0, K::k() / 2, K::k() - 1] {
                for d in 1..4u8 {
                    let mut m = k;
                    m.set_mut(pos, (k.get(pos) + d) % 4);
                    out.push(m);
                }
            }
        }
    }
    out.extend_from_slice(extra);
    out
}

/// Every user-visible answer of a finished graph, in a fixed order.
pub fn transcript<K: Kmer, D: Debug>(g: &DebruijnGraph<K, D>, probe_kmers: &[K]) -> Vec<String> {
    let mut t = Vec::with_capacity(g.len() * 2 + probe_kmers.len() + 2);
    t.push(format!("len={} stranded={} empty={}", g.len(), g.base.stranded, g.is_empty()));
    for i in 0..g.len() {
        let n = g.get_node(i);
        t.push(format!(
            "node {} seq={} len={} exts={} data={:?}",
            i,
            dna::to_ascii(&node_bases(g, i)),
            n.len(),
            n.exts().val,
            n.data()
        ));
        t.push(format!(
            "edges {} l={} r={} L={} R={}",
            i,
            fmt_edges(&n.l_edges()),
            fmt_edges(&n.r_edges()),
            fmt_edges(&n.edges(Dir::Left)),
            fmt_edges(&n.edges(Dir::Right))
        ));
    }
    for k in probe_kmers {
        t.push(format!(
            "link {} L={} R={}",
            dna::to_ascii(&kmer_bases(k)),
            fmt_link(g.find_link(*k, Dir::Left)),
            fmt_link(g.find_link(*k, Dir::Right))
        ));
    }
    t
}

pub fn first_diff(a: &[String], b: &[String]) -> Option<String> {
    for i in 0..a.len().max(b.len()) {
        let x = a.get(i).map(|s| s.as_str()).unwrap_or("<missing>");
        let y = b.get(i).map(|s| s.as_str()).unwrap_or("<missing>");
        if x != y {
            return Some(format!("line {}: `{}` vs `{}`", i, x, y));
        }
    }
    None
}

/// Reference index: "a k-mer is found as a node end exactly when some node starts or
/// ends with it". Returns None if terminal k-mers are not distinct (precondition of the
/// perfect-hash index; measured, not alarmed on).
pub struct RefIndex {
    pub left: BTreeMap<Vec<u8>, usize>,
    pub right: BTreeMap<Vec<u8>, usize>,
    pub stranded: bool,
}

impl RefIndex {
    pub fn build<K: Kmer, D: Debug>(g: &DebruijnGraph<K, D>) -> Option<RefIndex> {
        let mut left = BTreeMap::new();
        let mut right = BTreeMap::new();
        let k = K::k();
        for i in 0..g.len() {
            let b = node_bases(g, i);
            if b.len() < k {
                return None;
            }
            if left.insert(b[..k].to_vec(), i).is_some() {
                return None;
            }
            if right.insert(b[b.len() - k..].to_vec(), i).is_some() {
                return None;
            }
        }
        Some(RefIndex {
            left,
            right,
            stranded: g.base.stranded,
        })
    }

    /// Model of `find_link`.
    pub fn find_link(&self, kmer: &[u8], dir: Dir) -> Option<(usize, Dir, bool)> {
        let rc = dna::rc(kmer);
        match dir {
            Dir::Left => {
                if let Some(i) = self.right.get(kmer) {
                    return Some((*i, Dir::Right, false));
                }
                if !self.stranded {
                    if let Some(i) = self.left.get(&rc) {
                        return Some((*i, Dir::Left, true));
                    }
                }
            }
            Dir::Right => {
                if let Some(i) = self.left.get(kmer) {
                    return Some((*i, Dir::Left, false));
                }
                if !self.stranded {
                    if let Some(i) = self.right.get(&rc) {
                        return Some((*i, Dir::Right, true));
                    }
                }
            }
        }
        None
    }
}

/// Check every link lookup and every edge list of `g` against the reference index.
pub fn check_against_ref_index<K: Kmer, D: Debug>(
    g: &DebruijnGraph<K, D>,
    probe_kmers: &[K],
) -> Result<bool, String> {
    let idx = match RefIndex::build(g) {
        Some(i) => i,
        None => return Ok(false),
    };
    for k in probe_kmers {
        let kb = kmer_bases(k);
        for d in [Dir::Left, Dir::Right] {
            let got = fmt_link(g.find_link(*k, d));
            let want = fmt_link(idx.find_link(&kb, d));
            if got != want {
                return Err(format!(
                    "find_link({}, {}) = {} but reference index says {}",
                    dna::to_ascii(&kb),
                    dir_u(d),
                    got,
                    want
                ));
            }
        }
    }
    for i in 0..g.len() {
        let n = g.get_node(i);
        let b = node_bases(g, i);
        let kk = K::k();
        for d in [Dir::Left, Dir::Right] {
            let term: Vec<u8> = match d {
                Dir::Left => b[..kk].to_vec(),
                Dir::Right => b[b.len() - kk..].to_vec(),
            };
            let mut want = Vec::new();
            for base in 0..4u8 {
                if n.exts().has_ext(d, base) {
                    let ext: Vec<u8> = match d {
                        Dir::Left => std::iter::once(base).chain(term[..kk - 1].iter().cloned()).collect(),
                        Dir::Right => term[1..].iter().cloned().chain(std::iter::once(base)).collect(),
                    };
                    if let Some(l) = idx.find_link(&ext, d) {
                        want.push(l);
                    }
                }
            }
            let got = fmt_edges(&n.edges(d));
            let want = fmt_edges(&want);
            if got != want {
                return Err(format!("edges({}) of node {} = {} but reference says {}", dir_u(d), i, got, want));
            }
        }
    }
    Ok(true)
}

// ---------------------------------------------------------------------------------
// Canonical form

/// side: 0 = outward is to the left of the canonical k-mer, 1 = to the right,
/// 2 = palindromic terminal k-mer (sides indistinguishable), 3 = isolated cycle
pub type EndId = (Vec<u8>, u8);

#[derive(Debug, Clone, PartialEq, Eq)]
pub struct Canon {
    /// min canonical k-mer of node -> (sorted canonical k-mers, payload Debug text)
    pub nodes: BTreeMap<Vec<u8>, (Vec<Vec<u8>>, String)>,
    /// node end -> outward extension bases in the canonical k-mer's orientation
    pub ends: BTreeMap<EndId, BTreeSet<u8>>,
    /// unordered pairs of node ends, with multiplicity (1 when an ambiguous end is involved)
    pub adj: BTreeMap<(EndId, EndId), u32>,
    pub cycles: usize,
    pub palindromic_ends: usize,
}

fn canon_kmer(b: &[u8], stranded: bool) -> (Vec<u8>, bool) {
    if stranded {
        (b.to_vec(), false)
    } else {
        dna::canon(b)
    }
}

/// Canonical end identity for side `d` of node with bases `b`.
fn end_id(b: &[u8], k: usize, d: Dir, stranded: bool) -> (EndId, bool) {
    let term = match d {
        Dir::Left => &b[..k],
        Dir::Right => &b[b.len() - k..],
    };
    let (c, flipped) = canon_kmer(term, stranded);
    if !stranded && dna::is_palindrome(term) {
        return ((c, 2), false);
    }
    // outward direction relative to the canonical k-mer
    let side = match (d, flipped) {
        (Dir::Left, false) => 0,
        (Dir::Left, true) => 1,
        (Dir::Right, false) => 1,
        (Dir::Right, true) => 0,
    };
    ((c, side), flipped)
}

pub fn canon_graph<K: Kmer, D: Debug>(g: &DebruijnGraph<K, D>, data_fmt: &dyn Fn(&D) -> String) -> Canon {
    let k = K::k();
    let stranded = g.base.stranded;
    let mut nodes = BTreeMap::new();
    let mut ends: BTreeMap<EndId, BTreeSet<u8>> = BTreeMap::new();
    let mut adj: BTreeMap<(EndId, EndId), u32> = BTreeMap::new();
    let mut cycles = 0;
    let mut pal = 0;
    let n = g.len();
    let bases: Vec<Vec<u8>> = (0..n).map(|i| node_bases(g, i)).collect();
    // detect isolated pure cycles
    let mut is_cycle = vec![false; n];
    for i in 0..n {
        let node = g.get_node(i);
        let e = node.exts();
        if e.num_exts_l() == 1 && e.num_exts_r() == 1 {
            let r = node.r_edges();
            let l = node.l_edges();
            if r.len() == 1 && l.len() == 1 && r[0].0 == i && l[0].0 == i {
                if let (Dir::Left, Dir::Right) = (r[0].1, l[0].1) {
                    is_cycle[i] = true;
                    cycles += 1;
                }
            }
        }
    }
    let mut node_min: Vec<Vec<u8>> = Vec::with_capacity(n);
    for i in 0..n {
        let b = &bases[i];
        let mut ks: Vec<Vec<u8>> = Vec::new();
        if b.len() >= k {
            for p in 0..=(b.len() - k) {
                ks.push(canon_kmer(&b[p..p + k], stranded).0);
            }
        }
        ks.sort();
        let min = ks.first().cloned().unwrap_or_default();
        node_min.push(min.clone());
        nodes.insert(min, (ks, data_fmt(g.get_node(i).data())));
    }
    let end_of = |i: usize, d: Dir| -> EndId {
        if is_cycle[i] {
            (node_min[i].clone(), 3)
        } else {
            end_id(&bases[i], k, d, stranded).0
        }
    };
    for i in 0..n {
        let node = g.get_node(i);
        let e: Exts = node.exts();
        for d in [Dir::Left, Dir::Right] {
            let id = end_of(i, d);
            if id.1 == 2 {
                pal += 1;
            }
            let entry = ends.entry(id.clone()).or_default();
            if is_cycle[i] {
                // cut-dependent: only record that there is exactly one extension each way
                entry.insert(e.num_ext_dir(d));
            } else {
                let (_, flipped) = end_id(&bases[i], k, d, stranded);
                for base in 0..4u8 {
                    if e.has_ext(d, base) {
                        let bb = if id.1 == 2 {
                            // palindromic end: express as left-equivalent base
                            match d {
                                Dir::Left => base,
                                Dir::Right => 3 - base,
                            }
                        } else if flipped {
                            3 - base
                        } else {
                            base
                        };
                        entry.insert(bb);
                    }
                }
            }
            for (t, td, _) in node.edges(d) {
                let tid = end_of(t, td);
                let ambiguous = id.1 >= 2 || tid.1 >= 2;
                let key = if id <= tid { (id.clone(), tid) } else { (tid, id.clone()) };
                let c = adj.entry(key).or_insert(0);
                if ambiguous {
                    *c = 1;
                } else {
                    *c += 1;
                }
            }
        }
    }
    Canon {
        nodes,
        ends,
        adj,
        cycles,
        palindromic_ends: pal,
    }
}

fn end_str(e: &EndId) -> String {
    format!("{}/{}", dna::to_ascii(&e.0), e.1)
}

/// First difference between two canonical forms, as text.
pub fn canon_diff(a: &Canon, b: &Canon) -> Option<(&'static str, String)> {
    let pa: BTreeSet<&Vec<Vec<u8>>> = a.nodes.values().map(|v| &v.0).collect();
    let pb: BTreeSet<&Vec<Vec<u8>>> = b.nodes.values().map(|v| &v.0).collect();
    if pa != pb {
        let only_a: Vec<String> = pa
            .difference(&pb)
            .take(2)
            .map(|ks| ks.iter().map(|k| dna::to_ascii(k)).collect::<Vec<_>>().join(","))
            .collect();
        let only_b: Vec<String> = pb
            .difference(&pa)
            .take(2)
            .map(|ks| ks.iter().map(|k| dna::to_ascii(k)).collect::<Vec<_>>().join(","))
            .collect();
        let ka: BTreeSet<&Vec<u8>> = a.nodes.values().flat_map(|v| v.0.iter()).collect();
        let kb: BTreeSet<&Vec<u8>> = b.nodes.values().flat_map(|v| v.0.iter()).collect();
        let class = if ka != kb { "kmer-set" } else { "partition" };
        return Some((
            class,
            format!(
                "node k-mer sets differ ({} vs {} nodes): only in A {:?}; only in B {:?}",
                a.nodes.len(),
                b.nodes.len(),
                only_a,
                only_b
            ),
        ));
    }
    for (m, (_, da)) in &a.nodes {
        let db = &b.nodes[m].1;
        if da != db {
            return Some(("payload", format!("payload of node containing {}: {} vs {}", dna::to_ascii(m), da, db)));
        }
    }
    if a.adj != b.adj {
        for (k, c) in &a.adj {
            if b.adj.get(k) != Some(c) {
                return Some((
                    "adjacency",
                    format!("adjacency {} -- {} x{} in A, {:?} in B", end_str(&k.0), end_str(&k.1), c, b.adj.get(k)),
                ));
            }
        }
        for (k, c) in &b.adj {
            if a.adj.get(k) != Some(c) {
                return Some((
                    "adjacency",
                    format!("adjacency {} -- {} x{} in B, {:?} in A", end_str(&k.0), end_str(&k.1), c, a.adj.get(k)),
                ));
            }
        }
    }
    if a.ends != b.ends {
        for (k, e) in &a.ends {
            if b.ends.get(k) != Some(e) {
                return Some(("exts", format!("end {} exts {:?} in A, {:?} in B", end_str(k), e, b.ends.get(k))));
            }
        }
        for (k, e) in &b.ends {
            if a.ends.get(k) != Some(e) {
                return Some(("exts", format!("end {} exts {:?} in B, {:?} in A", end_str(k), e, a.ends.get(k))));
            }
        }
    }
    None
}

/// Is the edge relation of `g` symmetric (every edge has its return edge)?
pub fn edges_symmetric<K: Kmer, D: Debug>(g: &DebruijnGraph<K, D>) -> bool {
    for i in 0..g.len() {
        let n = g.get_node(i);
        for d in [Dir::Left, Dir::Right] {
            for (t, td, _) in n.edges(d) {
                let back = g.get_node(t).edges(td);
                if !back.iter().any(|(b, bd, _)| *b == i && dir_u(*bd) == dir_u(d)) {
                    return false;
                }
            }
        }
    }
    true
}
