//! Seeded search driver shared by all engines: derives case seeds, runs cases on
//! worker threads (a case is a pure function of its seed, so the worker count cannot
//! change what a case does), aggregates coverage, minimises and persists failures as
//! replay files, confirms each replay in a fresh process, and writes an evidence part.

use crate::rec::{Digest, Rec, Violation};
use crate::rng::{derive, Rng};
use serde::de::DeserializeOwned;
use serde::Serialize;
use serde_json::{json, Value};
use std::cell::RefCell;
use std::collections::{BTreeMap, HashSet};
use std::panic::{catch_unwind, AssertUnwindSafe};
use std::path::{Path, PathBuf};
use std::sync::atomic::{AtomicBool, AtomicU64, Ordering};
use std::sync::Mutex;
use std::time::Instant;

#[derive(Clone, Copy, Debug, PartialEq, Eq)]
pub enum Tier {
    Quick,
    Thorough,
}

impl Tier {
    pub fn as_str(&self) -> &'static str {
        match self {
            Tier::Quick => "quick",
            Tier::Thorough => "thorough",
        }
    }
}

pub trait Harness: Sync {
    type Case: Serialize + DeserializeOwned + Clone + Send + Sync;
    fn property(&self) -> &'static str;
    /// name of this sub-check (also the PRNG stream tag)
    fn name(&self) -> &'static str;
    fn engine(&self) -> &'static str;
    fn cases(&self, tier: Tier) -> u64;
    fn gen(&self, rng: &mut Rng, tier: Tier) -> Self::Case;
    fn run(&self, case: &Self::Case, rec: &mut Rec) -> Result<(), Violation>;
    fn shrink(&self, _case: &Self::Case) -> Vec<Self::Case> {
        Vec::new()
    }
    fn rule(&self) -> String;
    /// which components ran real code and which ran a stub
    fn components(&self) -> Value;
}

/// The host application's logging configuration is an environment choice too: `log` macros
/// evaluate their arguments only when the level is enabled, so code with side effects in a
/// log argument behaves differently under a logger. The simulator always installs a
/// discarding logger at Trace level (the more demanding environment; the logger-less one is
/// what the repository's own tests exercise). `VERIF_LOG=off` turns it off.
struct DiscardLogger;

impl log::Log for DiscardLogger {
    fn enabled(&self, _m: &log::Metadata) -> bool {
        true
    }
    fn log(&self, r: &log::Record) {
        // format the message so that lazily formatted arguments are really rendered
        let _ = std::hint::black_box(format!("{}", r.args()).len());
    }
    fn flush(&self) {}
}

static DISCARD_LOGGER: DiscardLogger = DiscardLogger;

pub fn install_logger() {
    if std::env::var("VERIF_LOG").as_deref() == Ok("off") {
        return;
    }
    if log::set_logger(&DISCARD_LOGGER).is_ok() {
        log::set_max_level(log::LevelFilter::Trace);
    }
}

thread_local! {
    static LAST_PANIC: RefCell<Option<(String, String)>> = const { RefCell::new(None) };
}

/// Install a silent panic hook that remembers (location, message) per thread.
pub fn install_panic_hook() {
    install_logger();
    std::panic::set_hook(Box::new(|info| {
        let loc = info
            .location()
            .map(|l| {
                let f = l.file();
                let f = f.rsplit_once("/src/").map(|x| x.1).unwrap_or(f);
                format!("{}:{}", f, l.line())
            })
            .unwrap_or_else(|| "?".into());
        let msg = if let Some(s) = info.payload().downcast_ref::<&str>() {
            s.to_string()
        } else if let Some(s) = info.payload().downcast_ref::<String>() {
            s.clone()
        } else {
            "<non-string panic>".to_string()
        };
        LAST_PANIC.with(|p| *p.borrow_mut() = Some((loc, msg)));
    }));
}

pub fn take_last_panic() -> Option<(String, String)> {
    LAST_PANIC.with(|p| p.borrow_mut().take())
}

/// Run `f`, turning a panic into `Err((location, message))`.
pub fn guarded<T>(f: impl FnOnce() -> T) -> Result<T, (String, String)> {
    match catch_unwind(AssertUnwindSafe(f)) {
        Ok(v) => Ok(v),
        Err(_) => Err(take_last_panic().unwrap_or(("?".into(), "panic".into()))),
    }
}

pub fn exec_case<H: Harness>(h: &H, case: &H::Case, record: bool) -> (Option<Violation>, Rec) {
    let mut rec = Rec::new(record);
    let r = catch_unwind(AssertUnwindSafe(|| h.run(case, &mut rec)));
    let v = match r {
        Ok(Ok(())) => None,
        // (engine T reports a panic inside an execution as a violation of its own: same rule as below)
        Ok(Err(v)) if v.detail.contains("exceeded max_steps bound") => {
            rec.count("inconclusive_step_bound");
            rec.nontrivial = false;
            None
        }
        Ok(Err(v)) => Some(v),
        Err(_) => {
            let (loc, msg) = take_last_panic().unwrap_or(("?".into(), "panic".into()));
            let msg: String = msg.chars().take(300).collect();
            // a panic raised by the harness's own dispatch tables is a harness error, not a finding
            let class = if msg.contains("not in list") || msg.contains("not in this check's list") { "harness" } else { "panic" };
            if msg.contains("exceeded max_steps bound") {
                // engine T: the controlled scheduler's step budget ran out (a large workload, or an
                // unfair schedule starving a spin-wait). That decides nothing about the property:
                // the run is counted as inconclusive, and too many of them fail the check as a
                // harness error (below), never as a violation.
                rec.count("inconclusive_step_bound");
                rec.nontrivial = false;
                None
            } else {
                Some(Violation::new(class, &loc, format!("uncaught panic at {}: {}", loc, msg)))
            }
        }
    };
    if let Some(v) = &v {
        rec.evs("violation", &format!("{}|{}", v.class, v.site));
    }
    (v, rec)
}

#[derive(Clone, Debug)]
pub struct Opts {
    pub tier: Tier,
    pub seed: u64,
    pub workers: usize,
    pub cases: Option<u64>,
    pub max_wall_s: u64,
    pub replay: Option<PathBuf>,
    pub confirm: bool,
    pub part_dir: PathBuf,
    pub replay_dir: PathBuf,
    pub known_findings: PathBuf,
    pub digests_out: Option<PathBuf>,
    /// argv prefix used to re-exec this binary for replay confirmation
    pub reexec: Vec<String>,
    /// > 0: run the search in this many single-threaded child processes (process isolation:
    /// cases cannot interfere through process-global state of the code under test)
    pub procs: usize,
    /// child mode: handle case indices congruent to .0 modulo .1
    pub stripe: Option<(u64, u64)>,
    /// child mode: dump the aggregated results here instead of post-processing them
    pub child_out: Option<PathBuf>,
    /// the raw arguments, for handing down to children
    pub raw_args: Vec<String>,
}

impl Opts {
    pub fn from_args(args: &[String]) -> Opts {
        let mut o = Opts {
            tier: match std::env::var("VERIF_TIER").as_deref() {
                Ok("thorough") => Tier::Thorough,
                _ => Tier::Quick,
            },
            seed: std::env::var("VERIF_SEED").ok().and_then(|s| s.parse().ok()).unwrap_or(1),
            workers: std::thread::available_parallelism().map(|n| n.get()).unwrap_or(4),
            cases: None,
            max_wall_s: 0,
            replay: None,
            confirm: false,
            part_dir: PathBuf::from("/verif/evidence/parts"),
            replay_dir: PathBuf::from("/verif/replays"),
            known_findings: PathBuf::from("/verif/known_findings.json"),
            digests_out: None,
            reexec: vec![std::env::current_exe().unwrap().to_string_lossy().to_string()],
            procs: 0,
            stripe: None,
            child_out: None,
            raw_args: args.to_vec(),
        };
        let mut i = 0;
        while i < args.len() {
            let a = args[i].as_str();
            let mut val = || {
                i += 1;
                args.get(i).cloned().unwrap_or_else(|| {
                    eprintln!("missing value for {}", a);
                    std::process::exit(2)
                })
            };
            match a {
                "--tier" => {
                    o.tier = match val().as_str() {
                        "quick" => Tier::Quick,
                        "thorough" => Tier::Thorough,
                        x => {
                            eprintln!("bad tier {}", x);
                            std::process::exit(2)
                        }
                    }
                }
                "--seed" => o.seed = val().parse().unwrap_or_else(|_| std::process::exit(2)),
                "--workers" => o.workers = val().parse().unwrap_or_else(|_| std::process::exit(2)),
                "--cases" => o.cases = Some(val().parse().unwrap_or_else(|_| std::process::exit(2))),
                "--max-wall" => o.max_wall_s = val().parse().unwrap_or_else(|_| std::process::exit(2)),
                "--replay" => o.replay = Some(PathBuf::from(val())),
                "--confirm" => o.confirm = true,
                "--part-dir" => o.part_dir = PathBuf::from(val()),
                "--replay-dir" => o.replay_dir = PathBuf::from(val()),
                "--known-findings" => o.known_findings = PathBuf::from(val()),
                "--digests-out" => o.digests_out = Some(PathBuf::from(val())),
                "--procs" => o.procs = val().parse().unwrap_or_else(|_| std::process::exit(2)),
                "--stripe" => {
                    let v = val();
                    let (a, b) = v.split_once('/').unwrap_or_else(|| std::process::exit(2));
                    o.stripe = Some((a.parse().unwrap_or_else(|_| std::process::exit(2)), b.parse().unwrap_or_else(|_| std::process::exit(2))));
                }
                "--child-out" => o.child_out = Some(PathBuf::from(val())),
                _ => {
                    eprintln!("unknown argument {}", a);
                    std::process::exit(2)
                }
            }
            i += 1;
        }
        o
    }
}

#[derive(Default)]
struct Agg {
    evaluations: u64,
    nontrivial: u64,
    env_digests: HashSet<u64>,
    counters: BTreeMap<String, u64>,
    sim_time: u64,
    events: u64,
    digests: Vec<(u64, u64)>,
    violations: Vec<(u64, Violation)>,
}

impl Agg {
    fn absorb(&mut self, idx: u64, rec: &Rec, v: Option<Violation>) {
        self.evaluations += 1;
        if rec.nontrivial && rec.env_choices > 0 {
            self.nontrivial += 1;
            self.env_digests.insert(rec.env.0);
        }
        for (k, n) in &rec.counters {
            *self.counters.entry(k.to_string()).or_insert(0) += n;
        }
        self.sim_time += rec.sim_time;
        self.events += rec.seq;
        self.digests.push((idx, rec.digest.0));
        if let Some(v) = v {
            if self.violations.len() < 64 {
                self.violations.push((idx, v));
            }
        }
    }
    fn merge(&mut self, o: Agg) {
        self.evaluations += o.evaluations;
        self.nontrivial += o.nontrivial;
        self.env_digests.extend(o.env_digests);
        for (k, n) in o.counters {
            *self.counters.entry(k).or_insert(0) += n;
        }
        self.sim_time += o.sim_time;
        self.events += o.events;
        self.digests.extend(o.digests);
        self.violations.extend(o.violations);
    }
}

fn known_findings(path: &Path, property: &str) -> Vec<Value> {
    let txt = match std::fs::read_to_string(path) {
        Ok(t) => t,
        Err(_) => return Vec::new(),
    };
    let v: Value = match serde_json::from_str(&txt) {
        Ok(v) => v,
        Err(e) => {
            eprintln!("HARNESS-ERROR: cannot parse {}: {}", path.display(), e);
            std::process::exit(2);
        }
    };
    v.get("findings")
        .and_then(|f| f.as_array())
        .map(|a| {
            a.iter()
                .filter(|e| e.get("property").and_then(|p| p.as_str()) == Some(property))
                .filter(|e| e.get("status").and_then(|p| p.as_str()) == Some("open"))
                .cloned()
                .collect()
        })
        .unwrap_or_default()
}

fn matches_finding(f: &Value, check: &str, v: &Violation) -> bool {
    let g = |k: &str| f.get(k).and_then(|x| x.as_str()).map(|s| s.to_string());
    if let Some(c) = g("check") {
        if c != check {
            return false;
        }
    }
    match (g("class"), g("site")) {
        (Some(c), Some(s)) => c == v.class && s == v.site,
        _ => false,
    }
}

fn minimise<H: Harness>(h: &H, case: H::Case, v: &Violation) -> (H::Case, Violation, u64) {
    let mut cur = case;
    let mut curv = v.clone();
    let mut execs = 0u64;
    let start = Instant::now();
    'outer: loop {
        if execs > 4000 || start.elapsed().as_secs() > 120 {
            break;
        }
        for cand in h.shrink(&cur) {
            execs += 1;
            let (cv, _) = exec_case(h, &cand, false);
            if let Some(cv) = cv {
                if cv.class == v.class && cv.site == v.site {
                    cur = cand;
                    curv = cv;
                    continue 'outer;
                }
            }
            if execs > 4000 || start.elapsed().as_secs() > 120 {
                break 'outer;
            }
        }
        break;
    }
    (cur, curv, execs)
}

/// Build configuration of the code under test in this binary (a configuration dimension of
/// its own: `debug_assert!` and overflow checks exist only in one of them).
pub fn build_config() -> &'static str {
    if cfg!(debug_assertions) {
        "optimised + debug-assertions + overflow-checks"
    } else {
        "release"
    }
}

pub fn write_part(opts: &Opts, name: &str, part: &Value) {
    let _ = std::fs::create_dir_all(&opts.part_dir);
    let p = opts.part_dir.join(format!("{}.json", name));
    if let Err(e) = std::fs::write(&p, serde_json::to_string_pretty(part).unwrap()) {
        eprintln!("HARNESS-ERROR: cannot write {}: {}", p.display(), e);
        std::process::exit(2);
    }
}

/// Replay a persisted case. Exit code 1 + VIOLATION line when it still violates.
pub fn replay<H: Harness>(h: &H, opts: &Opts, path: &Path) -> i32 {
    let txt = match std::fs::read_to_string(path) {
        Ok(t) => t,
        Err(e) => {
            eprintln!("HARNESS-ERROR: cannot read replay {}: {}", path.display(), e);
            return 2;
        }
    };
    let v: Value = match serde_json::from_str(&txt) {
        Ok(v) => v,
        Err(e) => {
            eprintln!("HARNESS-ERROR: bad replay file: {}", e);
            return 2;
        }
    };
    if v.get("check").and_then(|c| c.as_str()) != Some(h.name()) {
        eprintln!("HARNESS-ERROR: replay file is for check {:?}, not {}", v.get("check"), h.name());
        return 2;
    }
    let case: H::Case = match serde_json::from_value(v["case"].clone()) {
        Ok(c) => c,
        Err(e) => {
            eprintln!("HARNESS-ERROR: bad case in replay file: {}", e);
            return 2;
        }
    };
    // a replayed case that hangs must still terminate the replay: watchdog thread
    let limit: u64 = std::env::var("VERIF_HANG_LIMIT_S").ok().and_then(|v| v.parse().ok()).unwrap_or(600);
    let finished = std::sync::Arc::new(AtomicBool::new(false));
    {
        let finished = finished.clone();
        let prop = h.property();
        let pth = path.display().to_string();
        let confirm = opts.confirm;
        std::thread::spawn(move || {
            let t0 = Instant::now();
            while t0.elapsed().as_secs() <= limit {
                std::thread::sleep(std::time::Duration::from_millis(200));
                if finished.load(Ordering::Relaxed) {
                    return;
                }
            }
            println!("REPLAY-RESULT class=hang site=no progress digest=0000000000000000");
            if !confirm {
                println!("VIOLATION property={} replay={}", prop, pth);
            }
            std::process::exit(1);
        });
    }
    let (viol, rec) = exec_case(h, &case, true);
    finished.store(true, Ordering::Relaxed);
    match viol {
        Some(viol) => {
            println!(
                "REPLAY-RESULT class={} site={} digest={:016x}",
                viol.class, viol.site, rec.digest.0
            );
            if !opts.confirm {
                println!("detail: {}", viol.detail);
                if let Some(ev) = &rec.events {
                    let n = ev.len();
                    for e in ev.iter().skip(n.saturating_sub(12)) {
                        println!("  event {}", e);
                    }
                }
                println!("VIOLATION property={} replay={}", h.property(), path.display());
            }
            1
        }
        None => {
            println!("REPLAY-RESULT class=none site=none digest={:016x}", rec.digest.0);
            0
        }
    }
}

/// Run the seeded search. Returns the process exit code.
pub fn search<H: Harness>(h: &H, opts: &Opts, wrap: &(dyn Fn(&mut (dyn FnMut() + Send)) + Sync)) -> i32 {
    if let Some(p) = &opts.replay {
        return replay(h, opts, p);
    }
    let start = Instant::now();
    let total = opts.cases.unwrap_or_else(|| h.cases(opts.tier));
    let next = AtomicU64::new(0);
    let stop = AtomicBool::new(false);
    let global = Mutex::new(Agg::default());
    let samples: Mutex<Vec<(u64, Value)>> = Mutex::new(Vec::new());
    println!(
        "[{}] property={} engine={} tier={} VERIF_SEED={} cases={} workers={}",
        h.name(),
        h.property(),
        h.engine(),
        opts.tier.as_str(),
        opts.seed,
        total,
        opts.workers
    );
    // ---- process isolation: single-threaded children, results merged here
    let mut did_children = false;
    if opts.procs > 0 && opts.stripe.is_none() {
        did_children = true;
        let n = opts.procs as u64;
        let tmpdir = opts.part_dir.join(format!(".children-{}-{}", h.name(), std::process::id()));
        let _ = std::fs::create_dir_all(&tmpdir);
        let mut kids = Vec::new();
        for i in 0..n {
            let out = tmpdir.join(format!("{}.json", i));
            let mut cmd = std::process::Command::new(&opts.reexec[0]);
            cmd.args(&opts.reexec[1..]);
            cmd.arg(h.name());
            // hand the original arguments down, minus the ones this level owns
            let mut skip = false;
            for a in &opts.raw_args {
                if skip {
                    skip = false;
                    continue;
                }
                if matches!(a.as_str(), "--procs" | "--workers" | "--digests-out") {
                    skip = true;
                    continue;
                }
                cmd.arg(a);
            }
            cmd.arg("--tier").arg(opts.tier.as_str()).arg("--seed").arg(opts.seed.to_string());
            cmd.arg("--workers").arg("1").arg("--stripe").arg(format!("{}/{}", i, n)).arg("--child-out").arg(&out);
            cmd.stdout(std::process::Stdio::piped());
            match cmd.spawn() {
                Ok(c) => kids.push((i, c, out)),
                Err(e) => {
                    eprintln!("HARNESS-ERROR: cannot spawn child: {}", e);
                    return 2;
                }
            }
        }
        let mut child_failed = 0;
        for (i, c, out) in kids {
            let o = c.wait_with_output();
            let code = o.as_ref().map(|o| o.status.code().unwrap_or(-1)).unwrap_or(-1);
            let so = o.map(|o| String::from_utf8_lossy(&o.stdout).to_string()).unwrap_or_default();
            // pass through verdict lines of a child that ended on its own (hang watchdog)
            for l in so.lines() {
                if l.starts_with("VIOLATION") || l.starts_with("violation") || l.starts_with("HARNESS-ERROR") {
                    println!("{}", l);
                }
            }
            let txt = std::fs::read_to_string(&out).unwrap_or_default();
            let v: Value = match serde_json::from_str(&txt) {
                Ok(v) => v,
                Err(_) => {
                    if code == 1 {
                        child_failed = child_failed.max(1);
                    } else {
                        eprintln!("HARNESS-ERROR: child {} of {} ended with exit {} and no result", i, h.name(), code);
                        child_failed = 2;
                    }
                    continue;
                }
            };
            let mut g = global.lock().unwrap();
            g.evaluations += v["evaluations"].as_u64().unwrap_or(0);
            g.nontrivial += v["nontrivial"].as_u64().unwrap_or(0);
            g.sim_time += v["sim_time"].as_u64().unwrap_or(0);
            g.events += v["events"].as_u64().unwrap_or(0);
            for d in v["env_digests"].as_array().map(|a| a.as_slice()).unwrap_or(&[]) {
                g.env_digests.insert(d.as_u64().unwrap_or(0));
            }
            if let Some(c) = v["counters"].as_object() {
                for (k, n) in c {
                    *g.counters.entry(k.clone()).or_insert(0) += n.as_u64().unwrap_or(0);
                }
            }
            for d in v["digests"].as_array().map(|a| a.as_slice()).unwrap_or(&[]) {
                g.digests.push((d[0].as_u64().unwrap_or(0), d[1].as_u64().unwrap_or(0)));
            }
            for x in v["violations"].as_array().map(|a| a.as_slice()).unwrap_or(&[]) {
                if let Ok(viol) = serde_json::from_value::<Violation>(x[1].clone()) {
                    g.violations.push((x[0].as_u64().unwrap_or(0), viol));
                }
            }
            for x in v["samples"].as_array().map(|a| a.as_slice()).unwrap_or(&[]) {
                samples.lock().unwrap().push((x[0].as_u64().unwrap_or(0), x[1].clone()));
            }
        }
        let _ = std::fs::remove_dir_all(&tmpdir);
        if child_failed == 2 {
            return 2;
        }
        if child_failed == 1 && global.lock().unwrap().violations.is_empty() {
            // a child reported a violation on its own (hang watchdog) - its lines were passed through
            return 1;
        }
    }
    // watchdog: a case that does not finish within the limit is reported as a violation of
    // class "hang" (wall clock is only read here, never inside a case)
    let n_workers = opts.workers.max(1);
    let current: Vec<AtomicU64> = (0..n_workers).map(|_| AtomicU64::new(0)).collect();
    let started: Vec<AtomicU64> = (0..n_workers).map(|_| AtomicU64::new(0)).collect();
    let all_done = AtomicBool::new(false);
    let hang_limit_s: u64 = std::env::var("VERIF_HANG_LIMIT_S").ok().and_then(|v| v.parse().ok()).unwrap_or(600);
    let worker_ids = AtomicU64::new(0);
    let finished_workers = AtomicU64::new(0);
    if !did_children {
    std::thread::scope(|s| {
        s.spawn(|| loop {
            std::thread::sleep(std::time::Duration::from_millis(500));
            if all_done.load(Ordering::Relaxed) {
                break;
            }
            let now = start.elapsed().as_secs();
            for w in 0..n_workers {
                let cur = current[w].load(Ordering::Relaxed);
                let st = started[w].load(Ordering::Relaxed);
                if cur != 0 && now.saturating_sub(st) > hang_limit_s {
                    let idx = cur - 1;
                    let case_seed = derive(opts.seed, h.name(), idx);
                    let case = h.gen(&mut Rng::new(case_seed), opts.tier);
                    let _ = std::fs::create_dir_all(&opts.replay_dir);
                    let path = opts.replay_dir.join(format!("{}-{}-hang-{}.json", h.property(), h.name(), idx));
                    let doc = json!({
                        "property": h.property(), "check": h.name(), "engine": h.engine(), "verif_seed": opts.seed, "tier": opts.tier.as_str(),
                        "case_index": idx, "case_seed": case_seed,
                        "violation": {"class": "hang", "site": "no progress", "detail": format!("case did not finish within {} s", hang_limit_s)},
                        "digest": "0000000000000000", "case": serde_json::to_value(&case).unwrap(), "events": [],
                    });
                    let _ = std::fs::write(&path, serde_json::to_string_pretty(&doc).unwrap());
                    println!("violation check={} case_index={} class=hang: case did not finish within {} s", h.name(), idx, hang_limit_s);
                    println!("VIOLATION property={} replay={}", h.property(), path.display());
                    let part = json!({"check": h.name(), "property": h.property(), "engine": h.engine(), "tier": opts.tier.as_str(), "seed": opts.seed,
                        "evaluations": next.load(Ordering::Relaxed), "planned": total, "nontrivial_runs": 0, "distinct_nontrivial": 0, "rule": h.rule(), "samples": [],
                        "counters": {}, "violations": 1, "replay_files": [path.display().to_string()], "known_findings_hit": [], "components": h.components(),
                        "wall_s": start.elapsed().as_secs_f64(), "note": "aborted by the hang watchdog"});
                    write_part(opts, h.name(), &part);
                    std::process::exit(1);
                }
            }
        });
        for _ in 0..n_workers {
            s.spawn(|| {
                let wid = worker_ids.fetch_add(1, Ordering::Relaxed) as usize;
                let mut body = || {
                    let mut agg = Agg::default();
                    loop {
                        if stop.load(Ordering::Relaxed) {
                            break;
                        }
                        let j = next.fetch_add(1, Ordering::Relaxed);
                        let idx = match opts.stripe {
                            Some((i, n)) => j * n + i,
                            None => j,
                        };
                        if idx >= total {
                            break;
                        }
                        if opts.max_wall_s > 0 && idx % 16 == 0 && start.elapsed().as_secs() >= opts.max_wall_s {
                            stop.store(true, Ordering::Relaxed);
                            break;
                        }
                        let case_seed = derive(opts.seed, h.name(), idx);
                        let mut rng = Rng::new(case_seed);
                        let case = h.gen(&mut rng, opts.tier);
                        started[wid].store(start.elapsed().as_secs(), Ordering::Relaxed);
                        current[wid].store(idx + 1, Ordering::Relaxed);
                        let (v, rec) = exec_case(h, &case, false);
                        current[wid].store(0, Ordering::Relaxed);
                        if idx < 3 {
                            samples.lock().unwrap().push((
                                idx,
                                json!({"case_index": idx, "case_seed": case_seed, "case": serde_json::to_value(&case).unwrap(),
                                       "event_digest": format!("{:016x}", rec.digest.0), "events": rec.seq, "nontrivial": rec.nontrivial}),
                            ));
                        }
                        agg.absorb(idx, &rec, v);
                    }
                    global.lock().unwrap().merge(agg);
                };
                wrap(&mut body);
                if finished_workers.fetch_add(1, Ordering::Relaxed) + 1 == n_workers as u64 {
                    all_done.store(true, Ordering::Relaxed);
                }
            });
        }
    });
    }
    let mut agg = global.into_inner().unwrap();
    agg.digests.sort();
    agg.violations.sort_by_key(|x| x.0);
    if let Some(out) = &opts.child_out {
        let mut smp = samples.into_inner().unwrap();
        smp.sort_by_key(|x| x.0);
        let doc = json!({
            "evaluations": agg.evaluations, "nontrivial": agg.nontrivial, "sim_time": agg.sim_time, "events": agg.events,
            "env_digests": agg.env_digests.iter().collect::<Vec<_>>(),
            "counters": agg.counters,
            "digests": agg.digests.iter().map(|(i, d)| json!([i, d])).collect::<Vec<_>>(),
            "violations": agg.violations.iter().map(|(i, v)| json!([i, v])).collect::<Vec<_>>(),
            "samples": smp.iter().map(|(i, v)| json!([i, v])).collect::<Vec<_>>(),
        });
        if std::fs::write(out, serde_json::to_string(&doc).unwrap()).is_err() {
            eprintln!("HARNESS-ERROR: cannot write child result");
            return 2;
        }
        return 0;
    }
    let mut run_digest = Digest::new();
    for (i, d) in &agg.digests {
        run_digest.u64(*i);
        run_digest.u64(*d);
    }
    if let Some(p) = &opts.digests_out {
        let mut s = String::new();
        for (i, d) in &agg.digests {
            s.push_str(&format!("{} {:016x}\n", i, d));
        }
        if std::fs::write(p, s).is_err() {
            eprintln!("HARNESS-ERROR: cannot write digests");
            return 2;
        }
    }
    let search_wall = start.elapsed().as_secs_f64();

    // violations: group by (class, site), lowest case index first
    let known = known_findings(&opts.known_findings, h.property());
    // (class, site) -> (attempts, confirmed): if a replay does not reproduce in a fresh process,
    // later cases of the same group are tried (up to 4) before settling for an unconfirmed one
    let mut seen: std::collections::HashMap<(String, String), (u32, bool)> = std::collections::HashMap::new();
    let mut new_violations = 0u64;
    let mut known_hits: Vec<String> = Vec::new();
    let mut replay_files: Vec<String> = Vec::new();
    // a harness problem reported from inside a case is a harness error, never a violation
    let inconclusive = agg.counters.get("inconclusive_step_bound").cloned().unwrap_or(0);
    if inconclusive > 2 && inconclusive * 200 > agg.evaluations {
        println!(
            "HARNESS-ERROR: check={} {} of {} runs exhausted the scheduler's step budget (inconclusive): the check cannot decide on this tree",
            h.name(),
            inconclusive,
            agg.evaluations
        );
        return 2;
    }
    let harness_errs: Vec<&(u64, Violation)> = agg.violations.iter().filter(|x| x.1.class == "harness").collect();
    if !harness_errs.is_empty() {
        for (idx, v) in harness_errs.iter().take(3) {
            println!("HARNESS-ERROR: check={} case_index={} {}: {}", h.name(), idx, v.site, v.detail);
        }
        return 2;
    }
    for (idx, v) in &agg.violations {
        let key = (v.class.clone(), v.site.clone());
        let (attempts, was_confirmed) = seen.get(&key).cloned().unwrap_or((0, false));
        if attempts > 0 && (was_confirmed || attempts >= 4) {
            continue;
        }
        seen.insert(key.clone(), (attempts + 1, false));
        if attempts > 0 {
            println!("  (replay of the previous {}|{} case did not reproduce in a fresh process; trying case {})", v.class, v.site, idx);
        }
        if let Some(f) = known.iter().find(|f| matches_finding(f, h.name(), v)) {
            let what = f.get("what").and_then(|w| w.as_str()).unwrap_or("");
            println!(
                "KNOWN-FINDING: property={} check={} class={} site={} {}",
                h.property(),
                h.name(),
                v.class,
                v.site,
                what
            );
            known_hits.push(format!("{}|{}", v.class, v.site));
            seen.insert(key.clone(), (attempts + 1, true));
            continue;
        }
        if attempts == 0 {
            new_violations += 1;
        }
        if new_violations > 5 {
            seen.insert(key.clone(), (4, false));
            continue;
        }
        let case_seed = derive(opts.seed, h.name(), *idx);
        let case = h.gen(&mut Rng::new(case_seed), opts.tier);
        let (min_case, min_v, execs) = minimise(h, case.clone(), v);
        let (v2, rec2) = exec_case(h, &min_case, true);
        let (final_case, final_v, final_rec) = match v2 {
            Some(v2) if v2.class == v.class => (min_case, v2, rec2),
            _ => {
                // minimised case is not stable: fall back to the original
                let (v3, rec3) = exec_case(h, &case, true);
                (case.clone(), v3.unwrap_or(min_v), rec3)
            }
        };
        let _ = std::fs::create_dir_all(&opts.replay_dir);
        let fname = format!("{}-{}-{:016x}.json", h.property(), h.name(), final_rec.digest.0);
        let path = opts.replay_dir.join(fname);
        let original_case_value = {
            let v = serde_json::to_value(&case).unwrap();
            if serde_json::to_string(&v).map(|s| s.len()).unwrap_or(0) > 200_000 {
                json!("(omitted: large; regenerate from case_seed)")
            } else {
                v
            }
        };
        let doc = json!({
            "property": h.property(),
            "check": h.name(),
            "engine": h.engine(),
            "verif_seed": opts.seed,
            "build": build_config(),
            "tier": opts.tier.as_str(),
            "case_index": idx,
            "case_seed": case_seed,
            "minimise_execs": execs,
            "violation": final_v,
            "digest": format!("{:016x}", final_rec.digest.0),
            "case": serde_json::to_value(&final_case).unwrap(),
            "original_case": original_case_value,
            "events": final_rec.events.clone().unwrap_or_default(),
        });
        if let Err(e) = std::fs::write(&path, serde_json::to_string_pretty(&doc).unwrap()) {
            eprintln!("HARNESS-ERROR: cannot write replay {}: {}", path.display(), e);
            return 2;
        }
        // confirm in a fresh process
        let mut cmd = std::process::Command::new(&opts.reexec[0]);
        cmd.args(&opts.reexec[1..]);
        cmd.arg(h.name()).arg("--replay").arg(&path).arg("--confirm");
        let confirmed = match cmd.output() {
            Ok(out) => {
                let so = String::from_utf8_lossy(&out.stdout);
                let want = format!(
                    "REPLAY-RESULT class={} site={} digest={:016x}",
                    final_v.class, final_v.site, final_rec.digest.0
                );
                so.lines().any(|l| l.trim() == want)
            }
            Err(_) => false,
        };
        // The minimiser ran inside this (long-lived) process. If the code under test leaks state
        // between executions, the minimised case may only fail here. Fall back to the original
        // case: if THAT reproduces in a fresh process, persist it instead (exact but not minimal).
        let mut confirmed = confirmed;
        let mut fallback_note = "";
        if !confirmed {
            let (ov, orec) = exec_case(h, &case, true);
            if let Some(ov) = ov {
                let opath = opts.replay_dir.join(format!("{}-{}-{:016x}-unminimised.json", h.property(), h.name(), orec.digest.0));
                let odoc = json!({
                    "property": h.property(), "check": h.name(), "engine": h.engine(), "verif_seed": opts.seed, "tier": opts.tier.as_str(),
                    "case_index": idx, "case_seed": case_seed, "minimise_execs": 0, "violation": ov,
                    "digest": format!("{:016x}", orec.digest.0), "case": serde_json::to_value(&case).unwrap(),
                    "note": "the minimised case did not reproduce in a fresh process (state leaking between executions?); this is the case as generated",
                    "events": orec.events.clone().unwrap_or_default(),
                });
                if std::fs::write(&opath, serde_json::to_string_pretty(&odoc).unwrap()).is_ok() {
                    let mut cmd = std::process::Command::new(&opts.reexec[0]);
                    cmd.args(&opts.reexec[1..]);
                    cmd.arg(h.name()).arg("--replay").arg(&opath).arg("--confirm");
                    let want = format!("REPLAY-RESULT class={} site={} digest={:016x}", ov.class, ov.site, orec.digest.0);
                    let ok = cmd.output().map(|o| String::from_utf8_lossy(&o.stdout).lines().any(|l| l.trim() == want)).unwrap_or(false);
                    if ok {
                        confirmed = true;
                        fallback_note = " (unminimised case; the minimised one only failed inside the search process)";
                        let _ = std::fs::remove_file(&path);
                        println!(
                            "violation check={} case_index={} class={} site={} replay_confirmed_in_fresh_process=true{}",
                            h.name(), idx, ov.class, ov.site, fallback_note
                        );
                        println!("  detail: {}", ov.detail);
                        println!("VIOLATION property={} replay={}", h.property(), opath.display());
                        replay_files.push(opath.display().to_string());
                        seen.insert(key.clone(), (attempts + 1, true));
                        continue;
                    } else {
                        let _ = std::fs::remove_file(&opath);
                    }
                }
            }
        }
        let _ = fallback_note;
        println!(
            "violation check={} case_index={} class={} site={} replay_confirmed_in_fresh_process={}",
            h.name(),
            idx,
            final_v.class,
            final_v.site,
            confirmed
        );
        println!("  detail: {}", final_v.detail);
        println!("VIOLATION property={} replay={}", h.property(), path.display());
        replay_files.push(path.display().to_string());
        seen.insert(key.clone(), (attempts + 1, confirmed));
    }

    let wall = start.elapsed().as_secs_f64();
    let mut samples = samples.into_inner().unwrap();
    samples.sort_by_key(|x| x.0);
    let counters: serde_json::Map<String, Value> =
        agg.counters.iter().map(|(k, v)| (k.to_string(), json!(v))).collect();
    let part = json!({
        "check": h.name(),
        "property": h.property(),
        "build": build_config(),
        "engine": h.engine(),
        "tier": opts.tier.as_str(),
        "seed": opts.seed,
        "evaluations": agg.evaluations,
        "planned": total,
        "nontrivial_runs": agg.nontrivial,
        "distinct_nontrivial": agg.env_digests.len(),
        "rule": h.rule(),
        "samples": samples.into_iter().map(|x| x.1).collect::<Vec<_>>(),
        "counters": counters,
        "simulated_time_units": agg.sim_time,
        "events": agg.events,
        "run_digest": format!("{:016x}", run_digest.0),
        "wall_s": wall,
        "search_wall_s": search_wall,
        "runs_per_hour": if search_wall > 0.0 { (agg.evaluations as f64 / search_wall * 3600.0) as u64 } else { 0 },
        "violations": new_violations,
        "known_findings_hit": known_hits,
        "replay_files": replay_files,
        "components": h.components(),
        "workers": opts.workers,
    });
    write_part(opts, h.name(), &part);
    println!(
        "[{}] evaluations={} nontrivial={} distinct_env_traces={} events={} violations={} wall={:.1}s run_digest={:016x}",
        h.name(),
        agg.evaluations,
        agg.nontrivial,
        agg.env_digests.len(),
        agg.events,
        new_violations,
        wall,
        run_digest.0
    );
    if new_violations > 0 {
        1
    } else {
        0
    }
}

pub fn no_wrap(f: &mut (dyn FnMut() + Send)) {
    f()
}

pub fn replay_dir_default() -> PathBuf {
    PathBuf::from("/verif/replays")
}
