//! Shared simulation core: PRNG, recorder, stream and event simulators, read-set
//! generator, reference models and the seeded-search driver.
pub mod des;
pub mod dna;
pub mod driver;
pub mod io;
pub mod model;
pub mod monitor;
pub mod pipe;
pub mod rec;
pub mod rng;
pub mod spec;
pub mod userkmer;
