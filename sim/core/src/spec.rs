//! Graph specifications shared by all engines. A graph is "these reads through the real
//! pipeline"; for index properties (C19) it may instead be a free-form node set handed to
//! the public `BaseGraph::add` (arbitrary substrings of generated reads with distinct
//! terminal k-mers) - the index must be exact for any node set a caller can build, and
//! pipeline-built graphs never contain e.g. a palindromic k-mer at the end of a longer node.

use crate::dna::{self, GenCfg};
use crate::rng::Rng;
use serde::{Deserialize, Serialize};

pub fn k_of(name: &str) -> usize {
    match name {
        "Kmer2" => 2,
        "Kmer3" => 3,
        "Kmer4" => 4,
        "Kmer5" => 5,
        "Kmer6" => 6,
        "Kmer8" => 8,
        "Kmer10" => 10,
        "Kmer12" => 12,
        "Kmer14" => 14,
        "Kmer15" => 15,
        "Kmer16" => 16,
        "Kmer20" => 20,
        "Kmer24" => 24,
        "Kmer30" => 30,
        "KmerK31" => 31,
        "Kmer32" => 32,
        "Kmer40" => 40,
        "Kmer48" => 48,
        "Kmer64" => 64,
        // VarIntKmer whose K fills its storage integer (user-declared KmerSize)
        "Kmer4v" => 4,
        "Kmer8v" => 8,
        "Kmer16v" => 16,
        "Kmer32v" => 32,
        "Kmer64v" => 64,
        // VarIntKmer whose storage integer is (much) wider than 2K bits (user-declared)
        "Kmer6w" => 6,
        "Kmer12w" => 12,
        "Kmer20w" => 20,
        // k-mer types implemented outside the crate (simcore::userkmer)
        "Kmer7u" => 7,
        "Kmer33u" => 33,
        "Kmer80u" => 80,
        _ => panic!("unknown k-mer type {}", name),
    }
}

#[derive(Clone, Debug, Serialize, Deserialize)]
pub struct GraphSpec {
    pub ktype: String,
    pub stranded: bool,
    pub min_count: usize,
    #[serde(with = "crate::dna::serde_seqs")]
    pub reads: Vec<Vec<u8>>,
    /// when non-empty: node sequences (with extension bytes) added directly with BaseGraph::add
    #[serde(default, with = "crate::dna::serde_seq_exts")]
    pub direct_nodes: Vec<(Vec<u8>, u8)>,
    /// when >= 2: the node list is split into this many BaseGraphs (round-robin when odd,
    /// contiguous when even) which are then merged with `BaseGraph::combine` - the same node
    /// set, but built through the combine code path and its storage layout
    #[serde(default)]
    pub combine_parts: usize,
    /// provenance: the BaseGraph is serialised (serde_json) and read back before it is finished
    #[serde(default)]
    pub via_serde: bool,
    /// storage layout: when > 0 the node sequences are stored with up to this many unused bases
    /// between them (rebuilt through the store's public fields)
    #[serde(default)]
    pub store_gap: usize,
}

/// Free-form node set: random substrings of the reads, terminal k-mers distinct per side.
pub fn gen_direct_nodes(rng: &mut Rng, reads: &[Vec<u8>], k: usize, max_nodes: usize) -> Vec<(Vec<u8>, u8)> {
    use std::collections::BTreeSet;
    let mut firsts: BTreeSet<Vec<u8>> = BTreeSet::new();
    let mut lasts: BTreeSet<Vec<u8>> = BTreeSet::new();
    let mut out = Vec::new();
    let long: Vec<&Vec<u8>> = reads.iter().filter(|r| r.len() >= k).collect();
    if long.is_empty() {
        return out;
    }
    let tries = max_nodes * 4;
    for _ in 0..tries {
        if out.len() >= max_nodes {
            break;
        }
        let r = *rng.pick(&long);
        let len = match rng.below(3) {
            0 => k,
            1 => rng.range(k, k + 3),
            _ => rng.range(k, k + 24),
        }
        .min(r.len());
        let start = rng.below(r.len() - len + 1);
        let mut seq = r[start..start + len].to_vec();
        if rng.chance(1, 4) {
            seq = dna::rc(&seq);
        }
        let f = seq[..k].to_vec();
        let l = seq[len - k..].to_vec();
        if firsts.contains(&f) || lasts.contains(&l) {
            continue;
        }
        firsts.insert(f);
        lasts.insert(l);
        // extension bits: the true flanking bases when available, else random
        let exts = if rng.chance(1, 2) { rng.below(256) as u8 } else { 0xff };
        out.push((seq, exts));
    }
    out
}

pub fn gen_graph_spec(rng: &mut Rng, ktypes: &[&str], max_reads: usize, max_len: usize) -> GraphSpec {
    let ktype = rng.pick(ktypes).to_string();
    let k = k_of(&ktype);
    let cfg = GenCfg {
        k,
        max_reads,
        max_len: max_len.max(2 * k + 8),
        allow_short: true,
    };
    let (reads, _) = dna::gen_reads(rng, &cfg);
    GraphSpec {
        ktype,
        stranded: rng.chance(1, 3),
        min_count: if rng.chance(1, 5) { 2 } else { 1 },
        reads,
        direct_nodes: Vec::new(),
        combine_parts: if rng.chance(1, 4) { rng.range(2, 5) } else { 0 },
        via_serde: rng.chance(1, 8),
        store_gap: if rng.chance(1, 8) { *rng.pick(&[1usize, 2, 3, 5, 31, 32, 33, 64, 70]) } else { 0 },
    }
}

/// Delta-debugging style removal candidates for a list of `n` items: halves, quarters,
/// eighths, ... and single items only when the list is short. Keeps the number (and total
/// size) of shrink candidates bounded for very long lists.
pub fn removal_ranges(n: usize) -> Vec<(usize, usize)> {
    let mut out = Vec::new();
    if n == 0 {
        return out;
    }
    let mut parts = 2usize;
    while parts <= 16 && n / parts >= 1 && n > 64 {
        let step = n / parts;
        for p in 0..parts {
            let a = p * step;
            let b = if p + 1 == parts { n } else { a + step };
            out.push((a, b));
        }
        parts *= 2;
    }
    if n <= 64 {
        for i in 0..n {
            out.push((i, i + 1));
        }
    }
    out
}

pub fn shrink_graph_spec(g: &GraphSpec) -> Vec<GraphSpec> {
    let mut out = Vec::new();
    if g.via_serde {
        let mut x = g.clone();
        x.via_serde = false;
        out.push(x);
    }
    if g.store_gap > 0 {
        let mut x = g.clone();
        x.store_gap = 0;
        out.push(x);
        if g.store_gap > 1 {
            let mut y = g.clone();
            y.store_gap = 1;
            out.push(y);
        }
    }
    if g.combine_parts >= 2 {
        let mut x = g.clone();
        x.combine_parts = 0;
        out.push(x);
        if g.combine_parts > 2 {
            let mut y = g.clone();
            y.combine_parts = 2;
            out.push(y);
        }
    }
    if !g.direct_nodes.is_empty() {
        for i in 0..g.direct_nodes.len() {
            let mut x = g.clone();
            x.direct_nodes.remove(i);
            if !x.direct_nodes.is_empty() {
                out.push(x);
            }
        }
        for i in 0..g.direct_nodes.len() {
            if g.direct_nodes[i].1 != 0 {
                let mut x = g.clone();
                x.direct_nodes[i].1 = 0;
                out.push(x);
            }
        }
        return out;
    }
    let k = k_of(&g.ktype);
    for i in 0..g.reads.len() {
        let mut x = g.clone();
        x.reads.remove(i);
        out.push(x);
    }
    for i in 0..g.reads.len() {
        let n = g.reads[i].len();
        if n > k {
            for (a, b) in [(0, n / 2 + k / 2), (n / 2 - (k / 2).min(n / 2), n), (1, n), (0, n - 1)] {
                if b > a && b - a >= k && b - a < n {
                    let mut x = g.clone();
                    x.reads[i] = g.reads[i][a..b].to_vec();
                    out.push(x);
                }
            }
        }
    }
    if g.min_count > 1 {
        let mut x = g.clone();
        x.min_count = 1;
        out.push(x);
    }
    // a smaller k-mer type (a check that does not instantiate it rejects the candidate)
    for kt in ["Kmer4", "Kmer6", "Kmer8", "Kmer16"] {
        if k_of(kt) < k {
            let mut x = g.clone();
            x.ktype = kt.to_string();
            out.push(x);
        }
    }
    out
}

