//! Graph specifications shared by all engines: a graph is always "these reads through the
//! real pipeline", never hand-built.

use crate::dna::{self, GenCfg};
use crate::rng::Rng;
use serde::{Deserialize, Serialize};

pub fn k_of(name: &str) -> usize {
    match name {
        "Kmer2" => 2,
        "Kmer3" => 3,
        "Kmer4" => 4,
        "Kmer5" => 5,
        "Kmer6" => 6,
        "Kmer8" => 8,
        "Kmer10" => 10,
        "Kmer12" => 12,
        "Kmer14" => 14,
        "Kmer15" => 15,
        "Kmer16" => 16,
        "Kmer20" => 20,
        "Kmer24" => 24,
        "Kmer30" => 30,
        "KmerK31" => 31,
        "Kmer32" => 32,
        "Kmer40" => 40,
        "Kmer48" => 48,
        "Kmer64" => 64,
        _ => panic!("unknown k-mer type {}", name),
    }
}

#[derive(Clone, Debug, Serialize, Deserialize)]
pub struct GraphSpec {
    pub ktype: String,
    pub stranded: bool,
    pub min_count: usize,
    pub reads: Vec<Vec<u8>>,
}

pub fn gen_graph_spec(rng: &mut Rng, ktypes: &[&str], max_reads: usize, max_len: usize) -> GraphSpec {
    let ktype = rng.pick(ktypes).to_string();
    let k = k_of(&ktype);
    let cfg = GenCfg {
        k,
        max_reads,
        max_len: max_len.max(2 * k + 8),
        allow_short: true,
    };
    let (reads, _) = dna::gen_reads(rng, &cfg);
    GraphSpec {
        ktype,
        stranded: rng.chance(1, 3),
        min_count: if rng.chance(1, 5) { 2 } else { 1 },
        reads,
    }
}

pub fn shrink_graph_spec(g: &GraphSpec) -> Vec<GraphSpec> {
    let mut out = Vec::new();
    let k = k_of(&g.ktype);
    for i in 0..g.reads.len() {
        let mut x = g.clone();
        x.reads.remove(i);
        out.push(x);
    }
    for i in 0..g.reads.len() {
        let n = g.reads[i].len();
        if n > k {
            for (a, b) in [(0, n / 2 + k / 2), (n / 2 - (k / 2).min(n / 2), n), (1, n), (0, n - 1)] {
                if b > a && b - a >= k && b - a < n {
                    let mut x = g.clone();
                    x.reads[i] = g.reads[i][a..b].to_vec();
                    out.push(x);
                }
            }
        }
    }
    if g.min_count > 1 {
        let mut x = g.clone();
        x.min_count = 1;
        out.push(x);
    }
    out
}

