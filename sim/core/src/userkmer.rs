//! A k-mer type written the way a user of the crate would write one: `Kmer` and `Mer` are public
//! traits and nothing limits K to the widths of the crate's own integer-backed types. One base per
//! byte, nothing clever - the type is its own reference model. Used to run the generic code
//! (packed-string k-mer extraction, iteration, filtering, indexing, serde) at K = 33, 80 and 7.

use debruijn::{Kmer, Mer};
use serde::{Deserialize, Deserializer, Serialize, Serializer};

pub const MAX_K: usize = 96;

#[derive(Clone, Copy, PartialEq, Eq, PartialOrd, Ord, Hash)]
pub struct UserKmer<const K: usize> {
    bases: [u8; MAX_K],
}

impl<const K: usize> std::fmt::Debug for UserKmer<K> {
    fn fmt(&self, f: &mut std::fmt::Formatter) -> std::fmt::Result {
        let s: String = self.bases[..K].iter().map(|b| b"ACGT"[(*b & 3) as usize] as char).collect();
        write!(f, "{}", s)
    }
}

impl<const K: usize> Mer for UserKmer<K> {
    fn len(&self) -> usize {
        K
    }
    fn is_empty(&self) -> bool {
        K == 0
    }
    fn get(&self, pos: usize) -> u8 {
        assert!(pos < K);
        self.bases[pos]
    }
    fn set_mut(&mut self, pos: usize, val: u8) {
        assert!(pos < K);
        self.bases[pos] = val & 3;
    }
    /// `nbases` bases packed into the uppermost bits of `value`
    fn set_slice_mut(&mut self, pos: usize, nbases: usize, value: u64) {
        assert!(pos + nbases <= K && nbases <= 32);
        for i in 0..nbases {
            self.bases[pos + i] = ((value >> (62 - 2 * i)) & 3) as u8;
        }
    }
    fn rc(&self) -> Self {
        let mut out = Self::empty();
        for i in 0..K {
            out.bases[K - 1 - i] = 3 - self.bases[i];
        }
        out
    }
}

impl<const K: usize> Kmer for UserKmer<K> {
    fn empty() -> Self {
        UserKmer { bases: [0u8; MAX_K] }
    }
    fn k() -> usize {
        K
    }
    /// rank of the last min(K, 32) bases
    fn to_u64(&self) -> u64 {
        let n = K.min(32);
        let mut v = 0u64;
        for i in K - n..K {
            v = (v << 2) | self.bases[i] as u64;
        }
        v
    }
    fn from_u64(value: u64) -> Self {
        let mut out = Self::empty();
        let n = K.min(32);
        for i in 0..n {
            out.bases[K - 1 - i] = ((value >> (2 * i)) & 3) as u8;
        }
        out
    }
    fn hamming_dist(&self, other: Self) -> u32 {
        (0..K).filter(|i| self.bases[*i] != other.bases[*i]).count() as u32
    }
    fn extend_left(&self, v: u8) -> Self {
        let mut out = Self::empty();
        out.bases[0] = v & 3;
        out.bases[1..K].copy_from_slice(&self.bases[..K - 1]);
        out
    }
    fn extend_right(&self, v: u8) -> Self {
        let mut out = Self::empty();
        out.bases[..K - 1].copy_from_slice(&self.bases[1..K]);
        out.bases[K - 1] = v & 3;
        out
    }
}

impl<const K: usize> Serialize for UserKmer<K> {
    fn serialize<S: Serializer>(&self, s: S) -> Result<S::Ok, S::Error> {
        self.bases[..K].to_vec().serialize(s)
    }
}

impl<'de, const K: usize> Deserialize<'de> for UserKmer<K> {
    fn deserialize<D: Deserializer<'de>>(d: D) -> Result<Self, D::Error> {
        let v: Vec<u8> = Vec::deserialize(d)?;
        if v.len() != K || v.iter().any(|b| *b > 3) {
            return Err(serde::de::Error::custom("bad user k-mer"));
        }
        let mut out = Self::empty();
        out.bases[..K].copy_from_slice(&v);
        Ok(out)
    }
}

pub type Kmer7u = UserKmer<7>;
pub type Kmer33u = UserKmer<33>;
pub type Kmer80u = UserKmer<80>;
