//! The only source of randomness in the simulator: SplitMix64 seeding + xoshiro256**.
//! No dependency on any `rand` version, so a seed means the same thing forever.

#[derive(Clone, Debug)]
pub struct Rng {
    s: [u64; 4],
}

#[inline]
pub fn splitmix(x: &mut u64) -> u64 {
    *x = x.wrapping_add(0x9E37_79B9_7F4A_7C15);
    let mut z = *x;
    z = (z ^ (z >> 30)).wrapping_mul(0xBF58_476D_1CE4_E5B9);
    z = (z ^ (z >> 27)).wrapping_mul(0x94D0_49BB_1331_11EB);
    z ^ (z >> 31)
}

/// Derive an independent seed from (seed, textual tag, index). A case is addressable
/// without running its predecessors, and the worker count cannot change what it does.
pub fn derive(seed: u64, tag: &str, idx: u64) -> u64 {
    let mut h: u64 = 0xcbf2_9ce4_8422_2325 ^ seed;
    for b in tag.as_bytes() {
        h ^= *b as u64;
        h = h.wrapping_mul(0x0000_0100_0000_01B3);
    }
    let mut x = h ^ idx.wrapping_mul(0xD6E8_FEB8_6659_FD93);
    let a = splitmix(&mut x);
    let b = splitmix(&mut x);
    a ^ b.rotate_left(17)
}

impl Rng {
    pub fn new(seed: u64) -> Rng {
        let mut x = seed;
        let s = [
            splitmix(&mut x),
            splitmix(&mut x),
            splitmix(&mut x),
            splitmix(&mut x),
        ];
        Rng { s }
    }

    #[inline]
    pub fn next_u64(&mut self) -> u64 {
        let result = self.s[1].wrapping_mul(5).rotate_left(7).wrapping_mul(9);
        let t = self.s[1] << 17;
        self.s[2] ^= self.s[0];
        self.s[3] ^= self.s[1];
        self.s[1] ^= self.s[2];
        self.s[0] ^= self.s[3];
        self.s[2] ^= t;
        self.s[3] = self.s[3].rotate_left(45);
        result
    }

    /// Uniform in 0..n (n > 0).
    #[inline]
    pub fn below(&mut self, n: usize) -> usize {
        debug_assert!(n > 0);
        ((self.next_u64() >> 11) % (n as u64)) as usize
    }

    /// Uniform in lo..=hi.
    #[inline]
    pub fn range(&mut self, lo: usize, hi: usize) -> usize {
        if hi <= lo {
            return lo;
        }
        lo + self.below(hi - lo + 1)
    }

    /// True with probability num/den.
    #[inline]
    pub fn chance(&mut self, num: usize, den: usize) -> bool {
        self.below(den) < num
    }

    pub fn pick<'a, T>(&mut self, xs: &'a [T]) -> &'a T {
        &xs[self.below(xs.len())]
    }

    pub fn shuffle<T>(&mut self, xs: &mut [T]) {
        for i in (1..xs.len()).rev() {
            let j = self.below(i + 1);
            xs.swap(i, j);
        }
    }

    pub fn perm(&mut self, n: usize) -> Vec<usize> {
        let mut p: Vec<usize> = (0..n).collect();
        self.shuffle(&mut p);
        p
    }

    pub fn fork(&mut self) -> Rng {
        Rng::new(self.next_u64())
    }
}

#[cfg(test)]
mod tests {
    use super::*;
    #[test]
    fn stable() {
        let mut r = Rng::new(1);
        let a: Vec<u64> = (0..3).map(|_| r.next_u64()).collect();
        let mut r2 = Rng::new(1);
        let b: Vec<u64> = (0..3).map(|_| r2.next_u64()).collect();
        assert_eq!(a, b);
        assert_ne!(derive(1, "C05", 0), derive(1, "C05", 1));
        assert_ne!(derive(1, "C05", 0), derive(1, "C04", 0));
    }
}
