//! Plain-vector DNA helpers (bases are u8 in 0..4) used by generators and reference
//! models. Deliberately independent of the crate under test.

use crate::rng::Rng;

pub fn rc(s: &[u8]) -> Vec<u8> {
    s.iter().rev().map(|b| 3 - *b).collect()
}

pub fn to_ascii(s: &[u8]) -> String {
    s.iter()
        .map(|b| match b {
            0 => 'A',
            1 => 'C',
            2 => 'G',
            3 => 'T',
            _ => 'X',
        })
        .collect()
}

pub fn from_ascii(s: &str) -> Vec<u8> {
    s.bytes()
        .map(|c| match c {
            b'A' | b'a' => 0,
            b'C' | b'c' => 1,
            b'G' | b'g' => 2,
            b'T' | b't' => 3,
            _ => 0,
        })
        .collect()
}

/// Canonical form of a k-mer given as bases: min(s, rc(s)); flag = rc was (weakly) smaller or equal
/// in the sense "s is not strictly smaller than rc(s)".
pub fn canon(s: &[u8]) -> (Vec<u8>, bool) {
    let r = rc(s);
    if s < r.as_slice() {
        (s.to_vec(), false)
    } else {
        (r, true)
    }
}

pub fn is_palindrome(s: &[u8]) -> bool {
    s.len() % 2 == 0 && rc(s) == s
}

/// serde helpers: base vectors are written as ACGT text in cases and replay files
pub mod serde_seq {
    use serde::{Deserialize, Deserializer, Serializer};
    pub fn serialize<S: Serializer>(v: &Vec<u8>, s: S) -> Result<S::Ok, S::Error> {
        s.serialize_str(&super::to_ascii(v))
    }
    pub fn deserialize<'de, D: Deserializer<'de>>(d: D) -> Result<Vec<u8>, D::Error> {
        let t = String::deserialize(d)?;
        Ok(super::from_ascii(&t))
    }
}

pub mod serde_seqs {
    use serde::ser::SerializeSeq;
    use serde::{Deserialize, Deserializer, Serializer};
    pub fn serialize<S: Serializer>(v: &Vec<Vec<u8>>, s: S) -> Result<S::Ok, S::Error> {
        let mut q = s.serialize_seq(Some(v.len()))?;
        for x in v {
            q.serialize_element(&super::to_ascii(x))?;
        }
        q.end()
    }
    pub fn deserialize<'de, D: Deserializer<'de>>(d: D) -> Result<Vec<Vec<u8>>, D::Error> {
        let t = Vec::<String>::deserialize(d)?;
        Ok(t.iter().map(|x| super::from_ascii(x)).collect())
    }
}

pub mod serde_seq_exts {
    use serde::ser::SerializeSeq;
    use serde::{Deserialize, Deserializer, Serializer};
    pub fn serialize<S: Serializer>(v: &Vec<(Vec<u8>, u8)>, s: S) -> Result<S::Ok, S::Error> {
        let mut q = s.serialize_seq(Some(v.len()))?;
        for (x, e) in v {
            q.serialize_element(&(super::to_ascii(x), *e))?;
        }
        q.end()
    }
    pub fn deserialize<'de, D: Deserializer<'de>>(d: D) -> Result<Vec<(Vec<u8>, u8)>, D::Error> {
        let t = Vec::<(String, u8)>::deserialize(d)?;
        Ok(t.iter().map(|(x, e)| (super::from_ascii(x), *e)).collect())
    }
}

pub fn random_seq(rng: &mut Rng, len: usize, alphabet: &[u8]) -> Vec<u8> {
    (0..len).map(|_| *rng.pick(alphabet)).collect()
}

/// Swarm-style read-set generator configuration.
#[derive(Clone, Debug)]
pub struct GenCfg {
    pub k: usize,
    pub max_reads: usize,
    pub max_len: usize,
    /// allow reads shorter than k
    pub allow_short: bool,
}

pub const MOTIFS: [&str; 10] = [
    "chunk",
    "fresh",
    "palindrome",
    "hairpin",
    "tandem",
    "homopolymer",
    "cycle",
    "short_repeat",
    "long_repeat",
    "mutated_copy",
];

/// Generate a read set. A run enables a random subset of motif kinds (swarm testing),
/// a random alphabet (2..4 letters), a pool of shared chunks, then builds each read by
/// concatenating motifs. Afterwards some reads are duplicated, reverse-complemented,
/// truncated. Returns (reads, motif mask used).
pub fn gen_reads(rng: &mut Rng, cfg: &GenCfg) -> (Vec<Vec<u8>>, u32) {
    let k = cfg.k;
    // alphabet
    let alphabet: Vec<u8> = match rng.below(10) {
        0 | 1 => {
            let a = rng.below(4) as u8;
            let mut b = rng.below(4) as u8;
            if b == a {
                b = (a + 1 + rng.below(3) as u8) % 4;
            }
            vec![a, b]
        }
        2 => {
            let skip = rng.below(4) as u8;
            (0..4u8).filter(|x| *x != skip).collect()
        }
        _ => vec![0, 1, 2, 3],
    };
    // motif mask
    let mut mask: u32 = 0;
    for i in 0..MOTIFS.len() {
        if rng.chance(1, 2) {
            mask |= 1 << i;
        }
    }
    if mask == 0 {
        mask = 1 << rng.below(MOTIFS.len());
    }
    let enabled: Vec<usize> = (0..MOTIFS.len()).filter(|i| mask & (1 << i) != 0).collect();

    // pool of shared chunks
    let n_chunks = rng.range(1, 5);
    let mut pool: Vec<Vec<u8>> = Vec::new();
    for _ in 0..n_chunks {
        let len = match rng.below(4) {
            0 => rng.range(1, k.max(2) - 1),
            1 => rng.range(k, k + 3),
            _ => rng.range(k, 3 * k + 4),
        };
        pool.push(random_seq(rng, len, &alphabet));
    }

    let n_reads = rng.range(1, cfg.max_reads.max(1));
    let mut reads: Vec<Vec<u8>> = Vec::new();
    for _ in 0..n_reads {
        let target = match rng.below(6) {
            0 => rng.range(k, k + 2),
            1 => rng.range(k, 2 * k),
            _ => rng.range(k, cfg.max_len.max(k)),
        };
        let mut s: Vec<u8> = Vec::new();
        let mut guard = 0;
        while s.len() < target && guard < 64 {
            guard += 1;
            let m = *rng.pick(&enabled);
            match MOTIFS[m] {
                "chunk" => {
                    let c = rng.pick(&pool).clone();
                    if rng.chance(1, 3) {
                        s.extend(rc(&c));
                    } else {
                        s.extend(c);
                    }
                }
                "fresh" => {
                    let len = rng.range(1, 2 * k);
                    s.extend(random_seq(rng, len, &alphabet));
                }
                "palindrome" => {
                    // x . rc(x): |x| around k/2, k, > k
                    let len = match rng.below(3) {
                        0 => rng.range(1, (k / 2).max(1)),
                        1 => rng.range((k / 2).max(1), k),
                        _ => rng.range(k, k + 4),
                    };
                    let x = random_seq(rng, len, &alphabet);
                    let r = rc(&x);
                    s.extend(x);
                    s.extend(r);
                }
                "hairpin" => {
                    let len = rng.range((k / 2).max(1), k + 2);
                    let x = random_seq(rng, len, &alphabet);
                    let lp = rng.range(1, 4);
                    let l = random_seq(rng, lp, &alphabet);
                    let r = rc(&x);
                    s.extend(x);
                    s.extend(l);
                    s.extend(r);
                }
                "tandem" => {
                    let unit_len = rng.range(1, k + 2);
                    let unit = random_seq(rng, unit_len, &alphabet);
                    let total = rng.range(k, 2 * k + unit_len);
                    for i in 0..total {
                        s.push(unit[i % unit_len]);
                    }
                }
                "homopolymer" => {
                    let b = *rng.pick(&alphabet);
                    let len = rng.range(k.saturating_sub(1).max(1), 2 * k + 2);
                    s.extend(std::iter::repeat(b).take(len));
                }
                "cycle" => {
                    // s . s[..k] : a tight cycle in the k-mer graph
                    let len = rng.range(1, k + 3);
                    let x = random_seq(rng, len, &alphabet);
                    let reps = (2 * k) / len + 2;
                    let mut y: Vec<u8> = Vec::new();
                    for _ in 0..reps {
                        y.extend(x.iter());
                    }
                    y.truncate(len + k + rng.below(3));
                    s.extend(y);
                }
                "short_repeat" => {
                    // repeat shorter than k surrounded by fresh sequence, twice
                    let rl = rng.range(1, k.max(2) - 1);
                    let r = random_seq(rng, rl, &alphabet);
                    let f1 = rng.range(1, k);
                    let a = random_seq(rng, f1, &alphabet);
                    let f2 = rng.range(1, k);
                    let b = random_seq(rng, f2, &alphabet);
                    s.extend(&r);
                    s.extend(a);
                    s.extend(&r);
                    s.extend(b);
                }
                "long_repeat" => {
                    let rl = rng.range(k, 2 * k + 2);
                    let r = random_seq(rng, rl, &alphabet);
                    let f1 = rng.range(1, k);
                    let a = random_seq(rng, f1, &alphabet);
                    s.extend(&r);
                    s.extend(a);
                    if rng.chance(1, 2) {
                        s.extend(rc(&r));
                    } else {
                        s.extend(&r);
                    }
                }
                "mutated_copy" => {
                    if let Some(prev) = reads.last() {
                        let mut c: Vec<u8> = prev.clone();
                        if !c.is_empty() {
                            let p = rng.below(c.len());
                            c[p] = *rng.pick(&alphabet);
                        }
                        if rng.chance(1, 2) {
                            c = rc(&c);
                        }
                        s.extend(c);
                    } else {
                        let len = rng.range(1, 2 * k);
                        s.extend(random_seq(rng, len, &alphabet));
                    }
                }
                _ => unreachable!(),
            }
        }
        if s.len() > cfg.max_len.max(k) {
            // cut a window
            let start = rng.below(s.len() - cfg.max_len.max(k) + 1);
            s = s[start..start + cfg.max_len.max(k)].to_vec();
        }
        reads.push(s);
    }
    // post-processing: duplicates, rc copies, truncations, short reads
    let extra = rng.below(3);
    for _ in 0..extra {
        if reads.len() >= cfg.max_reads {
            break;
        }
        let src = rng.pick(&reads).clone();
        let r = match rng.below(4) {
            0 => src,
            1 => rc(&src),
            2 => {
                if src.len() > k + 1 {
                    let a = rng.below(src.len() - k);
                    let b = rng.range(a + k, src.len());
                    src[a..b].to_vec()
                } else {
                    src
                }
            }
            _ => {
                if cfg.allow_short && k > 1 {
                    let l = rng.range(0, k - 1).min(src.len());
                    src[..l].to_vec()
                } else {
                    rc(&src)
                }
            }
        };
        reads.push(r);
    }
    if cfg.allow_short && rng.chance(1, 8) {
        reads.push(Vec::new());
    }
    (reads, mask)
}

#[cfg(test)]
mod tests {
    use super::*;
    #[test]
    fn gen_deterministic() {
        let cfg = GenCfg {
            k: 6,
            max_reads: 8,
            max_len: 80,
            allow_short: true,
        };
        let a = gen_reads(&mut Rng::new(7), &cfg);
        let b = gen_reads(&mut Rng::new(7), &cfg);
        assert_eq!(a, b);
        assert!(!a.0.is_empty());
        assert_eq!(rc(&rc(&a.0[0])), a.0[0]);
    }
}
