//! Monitoring wrapper around the real `&DebruijnGraph` iteration. It forwards every call
//! to the real `NodeKmerIter`, and checks each answer against a model (the node's
//! k-mers computed from plain bases) on the fly. Real consumers - boomphf's chunked
//! MPHF constructors - are driven over this wrapper, so the call history they generate
//! (which depends on earlier levels and, in the parallel one, on the thread schedule)
//! is checked call by call.

use debruijn::graph::{DebruijnGraph, NodeIntoIter, NodeKmer, NodeKmerIter};
use debruijn::Kmer;
use std::fmt::Debug;
use std::sync::atomic::{AtomicU64, Ordering};
use std::sync::Mutex;

use crate::dna;
use crate::model::{kmer_bases, kmer_from_bases, node_bases};

pub struct Mon<'g, K: Kmer, D: Debug + Clone> {
    pub g: &'g DebruijnGraph<K, D>,
    pub models: Vec<Vec<K>>,
    pub errors: Mutex<Vec<(String, String)>>,
    pub calls_next: AtomicU64,
    pub calls_nth_small: AtomicU64,
    pub calls_nth_big: AtomicU64,
    pub calls_past_end: AtomicU64,
    pub iters: AtomicU64,
    pub max_skip: AtomicU64,
}

pub fn node_kmers_model<K: Kmer, D: Debug + Clone>(g: &DebruijnGraph<K, D>, i: usize) -> Vec<K> {
    let b = node_bases(g, i);
    let k = K::k();
    if b.len() < k {
        return Vec::new();
    }
    (0..=b.len() - k).map(|p| kmer_from_bases::<K>(&b[p..p + k])).collect()
}

impl<'g, K: Kmer, D: Debug + Clone> Mon<'g, K, D> {
    pub fn new(g: &'g DebruijnGraph<K, D>) -> Mon<'g, K, D> {
        let models = (0..g.len()).map(|i| node_kmers_model(g, i)).collect();
        Mon {
            g,
            models,
            errors: Mutex::new(Vec::new()),
            calls_next: AtomicU64::new(0),
            calls_nth_small: AtomicU64::new(0),
            calls_nth_big: AtomicU64::new(0),
            calls_past_end: AtomicU64::new(0),
            iters: AtomicU64::new(0),
            max_skip: AtomicU64::new(0),
        }
    }

    pub fn total_kmers(&self) -> usize {
        self.models.iter().map(|m| m.len()).sum()
    }

    fn error(&self, class: &str, msg: String) {
        let mut e = self.errors.lock().unwrap();
        if e.len() < 8 {
            e.push((class.to_string(), msg));
        }
    }

    pub fn first_error(&self) -> Option<(String, String)> {
        self.errors.lock().unwrap().first().cloned()
    }
}

impl<'a, 'g, K: Kmer, D: Debug + Clone> IntoIterator for &'a Mon<'g, K, D> {
    type Item = MonNode<'a, 'g, K, D>;
    type IntoIter = MonNodes<'a, 'g, K, D>;
    fn into_iter(self) -> Self::IntoIter {
        MonNodes {
            mon: self,
            inner: self.g.into_iter(),
            id: 0,
        }
    }
}

pub struct MonNodes<'a, 'g, K: Kmer, D: Debug + Clone> {
    mon: &'a Mon<'g, K, D>,
    inner: NodeIntoIter<'g, K, D>,
    id: usize,
}

impl<'a, 'g, K: Kmer, D: Debug + Clone> Iterator for MonNodes<'a, 'g, K, D> {
    type Item = MonNode<'a, 'g, K, D>;
    fn next(&mut self) -> Option<Self::Item> {
        match self.inner.next() {
            Some(n) => {
                if n.node_id != self.id {
                    self.mon.error(
                        "node-order",
                        format!("graph iteration yielded node {} at position {}", n.node_id, self.id),
                    );
                }
                let id = self.id;
                self.id += 1;
                if id >= self.mon.models.len() {
                    self.mon.error("node-count", format!("graph iteration yielded extra node at position {}", id));
                    return None;
                }
                Some(MonNode {
                    mon: self.mon,
                    id,
                    inner: n,
                })
            }
            None => {
                if self.id != self.mon.models.len() {
                    self.mon.error(
                        "node-count",
                        format!("graph iteration ended after {} of {} nodes", self.id, self.mon.models.len()),
                    );
                }
                None
            }
        }
    }
}

pub struct MonNode<'a, 'g, K: Kmer, D: Debug + Clone> {
    mon: &'a Mon<'g, K, D>,
    pub id: usize,
    inner: NodeKmer<'g, K, D>,
}

impl<'a, 'g, K: Kmer, D: Debug + Clone> Clone for MonNode<'a, 'g, K, D> {
    fn clone(&self) -> Self {
        MonNode {
            mon: self.mon,
            id: self.id,
            inner: self.inner.clone(),
        }
    }
}

impl<'a, 'g, K: Kmer, D: Debug + Clone> IntoIterator for MonNode<'a, 'g, K, D> {
    type Item = K;
    type IntoIter = MonIter<'a, 'g, K, D>;
    fn into_iter(self) -> Self::IntoIter {
        self.mon.iters.fetch_add(1, Ordering::Relaxed);
        let inner = self.inner.into_iter();
        let want = self.mon.models[self.id].len();
        let got = inner.len();
        let hint = inner.size_hint();
        if got != want || hint != (want, Some(want)) {
            self.mon.error(
                "len-mismatch",
                format!("node {}: len()={} size_hint={:?} up front, node has {} k-mers", self.id, got, hint, want),
            );
        }
        MonIter {
            mon: self.mon,
            id: self.id,
            inner,
            pos: 0,
            up_front: want,
        }
    }
}

pub struct MonIter<'a, 'g, K: Kmer, D: Debug + Clone> {
    mon: &'a Mon<'g, K, D>,
    id: usize,
    inner: NodeKmerIter<'g, K, D>,
    pos: usize,
    up_front: usize,
}

impl<'a, 'g, K: Kmer, D: Debug + Clone> MonIter<'a, 'g, K, D> {
    /// Checks the answer; returns what is handed on to the consumer. Past the node's last k-mer
    /// that is always `None` (fail-stop): an endless stream is recorded as an error once and must
    /// not keep the real consumer running - or allocating - for ever.
    fn check(&mut self, what: &str, skip: usize, got: Option<K>) -> Option<K> {
        let model = &self.mon.models[self.id];
        let target = self.pos.saturating_add(skip);
        let want = if target < model.len() { Some(model[target]) } else { None };
        if target >= model.len() {
            self.mon.calls_past_end.fetch_add(1, Ordering::Relaxed);
            self.pos = model.len();
        } else {
            self.pos = target + 1;
        }
        if got != want {
            let f = |k: Option<K>| k.map(|k| dna::to_ascii(&kmer_bases(&k))).unwrap_or_else(|| "None".into());
            let class = if want.is_none() { "not-none-past-end" } else { "wrong-kmer" };
            self.mon.error(
                class,
                format!(
                    "node {} ({} k-mers): {} reaching index {} returned {} but the node's k-mer there is {}",
                    self.id,
                    model.len(),
                    what,
                    target,
                    f(got),
                    f(want)
                ),
            );
        }
        if want.is_none() {
            None
        } else {
            got
        }
    }
}

impl<'a, 'g, K: Kmer, D: Debug + Clone> Iterator for MonIter<'a, 'g, K, D> {
    type Item = K;
    fn next(&mut self) -> Option<K> {
        self.mon.calls_next.fetch_add(1, Ordering::Relaxed);
        let got = self.inner.next();
        self.check("next()", 0, got)
    }
    fn nth(&mut self, n: usize) -> Option<K> {
        if n <= 4 {
            self.mon.calls_nth_small.fetch_add(1, Ordering::Relaxed);
        } else {
            self.mon.calls_nth_big.fetch_add(1, Ordering::Relaxed);
        }
        self.mon.max_skip.fetch_max(n as u64, Ordering::Relaxed);
        let got = self.inner.nth(n);
        self.check("nth(n)", n, got)
    }
    fn size_hint(&self) -> (usize, Option<usize>) {
        // the statement only promises the count "up front"; report what was promised then
        (self.up_front, Some(self.up_front))
    }
}

impl<'a, 'g, K: Kmer, D: Debug + Clone> ExactSizeIterator for MonIter<'a, 'g, K, D> {}
