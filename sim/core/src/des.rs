//! Discrete-event core: a heap of (simulated time, sequence number, event), a total
//! order, and a clock that jumps to the next event. The only clock simulated parties see.

use std::cmp::Reverse;
use std::collections::BinaryHeap;

pub struct Sim<E> {
    pub now: u64,
    seq: u64,
    heap: BinaryHeap<Reverse<(u64, u64, usize)>>,
    slots: Vec<Option<E>>,
    pub delivered: u64,
}

impl<E> Sim<E> {
    pub fn new() -> Sim<E> {
        Sim {
            now: 0,
            seq: 0,
            heap: BinaryHeap::new(),
            slots: Vec::new(),
            delivered: 0,
        }
    }

    /// Schedule `ev` at `now + delay`.
    pub fn after(&mut self, delay: u64, ev: E) {
        self.seq += 1;
        let id = self.slots.len();
        self.slots.push(Some(ev));
        self.heap.push(Reverse((self.now + delay, self.seq, id)));
    }

    /// Pop the next event, advancing the clock.
    pub fn next(&mut self) -> Option<(u64, u64, E)> {
        let Reverse((t, s, id)) = self.heap.pop()?;
        self.now = t;
        self.delivered += 1;
        let ev = self.slots[id].take().expect("event delivered twice");
        Some((t, s, ev))
    }

    pub fn pending(&self) -> usize {
        self.heap.len()
    }
}

impl<E> Default for Sim<E> {
    fn default() -> Self {
        Self::new()
    }
}

#[cfg(test)]
mod tests {
    use super::*;
    #[test]
    fn order() {
        let mut s: Sim<u32> = Sim::new();
        s.after(5, 1);
        s.after(3, 2);
        s.after(3, 3);
        let got: Vec<u32> = std::iter::from_fn(|| s.next().map(|x| x.2)).collect();
        assert_eq!(got, vec![2, 3, 1]);
        assert_eq!(s.now, 5);
    }
}
