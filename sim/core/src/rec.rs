//! Per-run recorder: ordered event log with a global sequence number, its 64-bit digest,
//! fault / reach counters, simulated time, and the "environment trace" digest used to
//! count distinct non-trivial runs. Logging never draws from the PRNG or reads a clock.

use std::collections::BTreeMap;

#[derive(Clone, Debug)]
pub struct Digest(pub u64);

impl Digest {
    pub fn new() -> Digest {
        Digest(0xcbf2_9ce4_8422_2325)
    }
    #[inline]
    pub fn bytes(&mut self, b: &[u8]) {
        for x in b {
            self.0 ^= *x as u64;
            self.0 = self.0.wrapping_mul(0x0000_0100_0000_01B3);
        }
        // length/separator
        self.0 ^= 0xff;
        self.0 = self.0.wrapping_mul(0x0000_0100_0000_01B3);
    }
    #[inline]
    pub fn u64(&mut self, v: u64) {
        self.bytes(&v.to_le_bytes());
    }
    pub fn str(&mut self, s: &str) {
        self.bytes(s.as_bytes());
    }
}

impl Default for Digest {
    fn default() -> Self {
        Self::new()
    }
}

pub fn digest_str(s: &str) -> u64 {
    let mut d = Digest::new();
    d.str(s);
    d.0
}

/// What a run found. `class` is the stable violation class (used for minimisation:
/// a shrunk case must fail with the same class) and `site` the failing call site /
/// input class (used to match known findings).
#[derive(Clone, Debug, serde::Serialize, serde::Deserialize, PartialEq)]
pub struct Violation {
    pub class: String,
    pub site: String,
    pub detail: String,
}

impl Violation {
    pub fn new(class: &str, site: &str, detail: String) -> Violation {
        Violation {
            class: class.to_string(),
            site: site.to_string(),
            detail,
        }
    }
}

pub struct Rec {
    pub seq: u64,
    pub digest: Digest,
    /// digest of the environment choices only (orders, faults, knobs) - for distinctness
    pub env: Digest,
    pub events: Option<Vec<String>>,
    pub counters: BTreeMap<&'static str, u64>,
    pub sim_time: u64,
    pub nontrivial: bool,
    /// number of environment choices that differed from the identity / fault-free choice
    pub env_choices: u64,
}

impl Rec {
    pub fn new(record_events: bool) -> Rec {
        Rec {
            seq: 0,
            digest: Digest::new(),
            env: Digest::new(),
            events: if record_events { Some(Vec::new()) } else { None },
            counters: BTreeMap::new(),
            sim_time: 0,
            nontrivial: false,
            env_choices: 0,
        }
    }

    /// Record an ordered event.
    #[inline]
    pub fn ev(&mut self, kind: &'static str, a: u64, b: u64) {
        self.seq += 1;
        self.digest.str(kind);
        self.digest.u64(a);
        self.digest.u64(b);
        if let Some(e) = self.events.as_mut() {
            if e.len() < 20_000 {
                e.push(format!("{} t={} {} {} {}", self.seq, self.sim_time, kind, a, b));
            }
        }
    }

    /// Record an event carrying text (hashed; kept only when recording).
    pub fn evs(&mut self, kind: &'static str, text: &str) {
        self.seq += 1;
        self.digest.str(kind);
        self.digest.str(text);
        if let Some(e) = self.events.as_mut() {
            if e.len() < 20_000 {
                let t: String = text.chars().take(400).collect();
                e.push(format!("{} t={} {} {}", self.seq, self.sim_time, kind, t));
            }
        }
    }

    /// Attach text to the recorded event list WITHOUT touching the digest (used for
    /// explanatory traces that exist only in replay mode, e.g. the explicit thread schedule).
    pub fn note(&mut self, kind: &'static str, text: &str) {
        if let Some(e) = self.events.as_mut() {
            if e.len() < 20_000 {
                let t: String = text.chars().take(4000).collect();
                e.push(format!("- t={} {} {}", self.sim_time, kind, t));
            }
        }
    }

    pub fn recording(&self) -> bool {
        self.events.is_some()
    }

    /// Record an environment choice (part of the distinctness digest). `identity` tells
    /// whether the choice equals the default/fault-free behaviour.
    #[inline]
    pub fn choice(&mut self, kind: &'static str, v: u64, identity: bool) {
        self.env.str(kind);
        self.env.u64(v);
        if !identity {
            self.env_choices += 1;
        }
        self.ev(kind, v, identity as u64);
    }

    #[inline]
    pub fn count(&mut self, k: &'static str) {
        *self.counters.entry(k).or_insert(0) += 1;
    }

    #[inline]
    pub fn add(&mut self, k: &'static str, n: u64) {
        *self.counters.entry(k).or_insert(0) += n;
    }
}
