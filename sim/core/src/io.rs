//! Simulated byte streams. `SimWriter` / `SimReader` implement `std::io::{Write, Read}`
//! and take every decision a real sink or source is allowed to take (how many bytes to
//! accept or return, `Interrupted`, hard failure at a byte offset, failure in `flush`,
//! early EOF) from a seeded plan, so one integer reproduces the whole stream behaviour.

use crate::rec::{Digest, Rec};
use crate::rng::Rng;
use serde::{Deserialize, Serialize};
use std::io::{self, Read, Write};

#[derive(Clone, Debug, Serialize, Deserialize, PartialEq)]
pub enum Hard {
    /// `write`/`read` returns `Err(Other)` once `offset` bytes went through (sticky).
    ErrAt(usize),
    /// `write` returns `Ok(0)` once `offset` bytes went through (sticky).
    ZeroAt(usize),
    /// only `flush` fails
    ErrOnFlush,
    /// reader: stream ends after `offset` bytes (a crash persisted only a prefix)
    EofAt(usize),
}

#[derive(Clone, Debug, Serialize, Deserialize, PartialEq)]
pub struct IoPlan {
    pub seed: u64,
    /// partial writes / reads
    pub short: bool,
    /// spurious `ErrorKind::Interrupted`
    pub interrupt: bool,
    pub hard: Option<Hard>,
}

impl IoPlan {
    pub fn clean() -> IoPlan {
        IoPlan {
            seed: 0,
            short: false,
            interrupt: false,
            hard: None,
        }
    }
    pub fn transparent(seed: u64, short: bool, interrupt: bool) -> IoPlan {
        IoPlan {
            seed,
            short,
            interrupt,
            hard: None,
        }
    }
    pub fn is_clean(&self) -> bool {
        !self.short && !self.interrupt && self.hard.is_none()
    }
    pub fn gen_transparent(rng: &mut Rng) -> IoPlan {
        let (short, interrupt) = match rng.below(4) {
            0 => (true, false),
            1 => (false, true),
            _ => (true, true),
        };
        IoPlan {
            seed: rng.next_u64(),
            short,
            interrupt,
            hard: None,
        }
    }
}

#[derive(Default, Clone, Debug)]
pub struct IoStats {
    pub calls: u64,
    pub short: u64,
    pub interrupted: u64,
    pub hard_err: u64,
    pub zero: u64,
    pub flush_err: u64,
    pub flushes: u64,
    pub eof_early: u64,
}

impl IoStats {
    pub fn merge_into(&self, rec: &mut Rec, prefix_w: bool) {
        if prefix_w {
            rec.add("io_write_calls", self.calls);
            rec.add("fault_short_write", self.short);
            rec.add("fault_write_interrupted", self.interrupted);
            rec.add("fault_write_hard_err", self.hard_err);
            rec.add("fault_write_zero", self.zero);
            rec.add("fault_flush_err", self.flush_err);
        } else {
            rec.add("io_read_calls", self.calls);
            rec.add("fault_short_read", self.short);
            rec.add("fault_read_interrupted", self.interrupted);
            rec.add("fault_read_hard_err", self.hard_err);
            rec.add("fault_read_early_eof", self.eof_early);
        }
    }
}

pub struct SimWriter {
    pub plan: IoPlan,
    rng: Rng,
    pub data: Vec<u8>,
    pub stats: IoStats,
    pub trace: Digest,
    last_interrupted: bool,
}

fn pick_len(rng: &mut Rng, len: usize) -> usize {
    if len <= 1 {
        return len;
    }
    match rng.below(4) {
        0 => 1,
        1 => rng.range(1, len),
        2 => rng.range(1, len.min(7)),
        _ => len,
    }
}

impl SimWriter {
    pub fn new(plan: IoPlan) -> SimWriter {
        let rng = Rng::new(plan.seed ^ 0x5157_5249);
        SimWriter {
            plan,
            rng,
            data: Vec::new(),
            stats: IoStats::default(),
            trace: Digest::new(),
            last_interrupted: false,
        }
    }

    /// A hard fault was actually delivered to the caller.
    pub fn hard_fired(&self) -> bool {
        self.stats.hard_err + self.stats.zero + self.stats.flush_err > 0
    }

    pub fn finish(self, rec: &mut Rec) -> Vec<u8> {
        self.stats.merge_into(rec, true);
        rec.ev("io_w_trace", self.trace.0, self.data.len() as u64);
        rec.env.u64(self.trace.0);
        if self.stats.short + self.stats.interrupted + self.stats.hard_err + self.stats.zero + self.stats.flush_err > 0 {
            rec.env_choices += 1;
        }
        self.data
    }
}

impl Write for SimWriter {
    fn write(&mut self, buf: &[u8]) -> io::Result<usize> {
        self.stats.calls += 1;
        if buf.is_empty() {
            return Ok(0);
        }
        let pos = self.data.len();
        let mut limit = buf.len();
        match self.plan.hard {
            Some(Hard::ErrAt(off)) => {
                if pos >= off {
                    self.stats.hard_err += 1;
                    self.trace.u64(0xE0 ^ (pos as u64) << 8);
                    return Err(io::Error::new(io::ErrorKind::Other, "simulated device error"));
                }
                limit = limit.min(off - pos);
            }
            Some(Hard::ZeroAt(off)) => {
                if pos >= off {
                    self.stats.zero += 1;
                    self.trace.u64(0xE1 ^ (pos as u64) << 8);
                    return Ok(0);
                }
                limit = limit.min(off - pos);
            }
            _ => {}
        }
        if self.plan.interrupt && !self.last_interrupted && self.rng.chance(1, 6) {
            self.last_interrupted = true;
            self.stats.interrupted += 1;
            self.trace.u64(0xE2 ^ (pos as u64) << 8);
            return Err(io::Error::new(io::ErrorKind::Interrupted, "simulated EINTR"));
        }
        self.last_interrupted = false;
        let n = if self.plan.short {
            pick_len(&mut self.rng, limit)
        } else {
            limit
        };
        if n < buf.len() {
            self.stats.short += 1;
        }
        self.trace.u64(n as u64);
        self.data.extend_from_slice(&buf[..n]);
        Ok(n)
    }

    fn flush(&mut self) -> io::Result<()> {
        self.stats.flushes += 1;
        if let Some(Hard::ErrOnFlush) = self.plan.hard {
            self.stats.flush_err += 1;
            return Err(io::Error::new(io::ErrorKind::Other, "simulated flush error"));
        }
        Ok(())
    }
}

pub struct SimReader<'a> {
    pub plan: IoPlan,
    rng: Rng,
    src: &'a [u8],
    pos: usize,
    pub stats: IoStats,
    pub trace: Digest,
    last_interrupted: bool,
}

impl<'a> SimReader<'a> {
    pub fn new(plan: IoPlan, src: &'a [u8]) -> SimReader<'a> {
        let rng = Rng::new(plan.seed ^ 0x5244_5244);
        SimReader {
            plan,
            rng,
            src,
            pos: 0,
            stats: IoStats::default(),
            trace: Digest::new(),
            last_interrupted: false,
        }
    }

    pub fn hard_fired(&self) -> bool {
        self.stats.hard_err + self.stats.eof_early > 0
    }

    pub fn finish(self, rec: &mut Rec) {
        self.stats.merge_into(rec, false);
        rec.ev("io_r_trace", self.trace.0, self.pos as u64);
        rec.env.u64(self.trace.0);
        if self.stats.short + self.stats.interrupted + self.stats.hard_err + self.stats.eof_early > 0 {
            rec.env_choices += 1;
        }
    }
}

impl<'a> Read for SimReader<'a> {
    fn read(&mut self, buf: &mut [u8]) -> io::Result<usize> {
        self.stats.calls += 1;
        if buf.is_empty() {
            return Ok(0);
        }
        let mut end = self.src.len();
        match self.plan.hard {
            Some(Hard::ErrAt(off)) => {
                if self.pos >= off {
                    self.stats.hard_err += 1;
                    self.trace.u64(0xE0 ^ (self.pos as u64) << 8);
                    return Err(io::Error::new(io::ErrorKind::Other, "simulated device error"));
                }
                end = end.min(off);
            }
            Some(Hard::EofAt(off)) => {
                if off < self.src.len() {
                    end = end.min(off);
                    if self.pos >= end {
                        self.stats.eof_early += 1;
                        return Ok(0);
                    }
                }
            }
            _ => {}
        }
        let remaining = end.saturating_sub(self.pos);
        if remaining == 0 {
            return Ok(0);
        }
        if self.plan.interrupt && !self.last_interrupted && self.rng.chance(1, 6) {
            self.last_interrupted = true;
            self.stats.interrupted += 1;
            self.trace.u64(0xE2 ^ (self.pos as u64) << 8);
            return Err(io::Error::new(io::ErrorKind::Interrupted, "simulated EINTR"));
        }
        self.last_interrupted = false;
        let limit = remaining.min(buf.len());
        let n = if self.plan.short {
            pick_len(&mut self.rng, limit)
        } else {
            limit
        };
        if n < buf.len() && n < remaining {
            self.stats.short += 1;
        }
        self.trace.u64(n as u64);
        buf[..n].copy_from_slice(&self.src[self.pos..self.pos + n]);
        self.pos += n;
        Ok(n)
    }
}

#[cfg(test)]
mod tests {
    use super::*;
    #[test]
    fn write_all_survives_transparent() {
        let mut w = SimWriter::new(IoPlan::transparent(3, true, true));
        w.write_all(b"hello world, this is a test of short writes").unwrap();
        assert_eq!(&w.data[..], &b"hello world, this is a test of short writes"[..]);
        assert!(w.stats.calls > 1);
    }
    #[test]
    fn hard_err() {
        let mut p = IoPlan::clean();
        p.hard = Some(Hard::ErrAt(5));
        let mut w = SimWriter::new(p);
        assert!(w.write_all(b"hello world").is_err());
        assert_eq!(&w.data[..], b"hello");
    }
    #[test]
    fn read_back() {
        let src = b"0123456789abcdefghijklmnopqrstuvwxyz".to_vec();
        let mut r = SimReader::new(IoPlan::transparent(9, true, true), &src);
        let mut out = Vec::new();
        r.read_to_end(&mut out).unwrap();
        assert_eq!(out, src);
    }
}
