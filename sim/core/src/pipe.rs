//! The real pipeline, composed the documented way: reads -> filter_kmers ->
//! compress_kmers_with_hash -> BaseGraph. Every graph used anywhere in the simulator is
//! produced by the code under test from generated reads, never hand-built.

use boomphf::hashmap::BoomHashMap2;
use debruijn::compression::{compress_kmers_with_hash, SimpleCompress};
use debruijn::filter::{filter_kmers, CountFilter};
use debruijn::graph::BaseGraph;
use debruijn::{DnaBytes, Exts, Kmer};

pub fn reads_as_seqs(reads: &[Vec<u8>]) -> Vec<(DnaBytes, Exts, u8)> {
    reads
        .iter()
        .enumerate()
        .map(|(i, r)| (DnaBytes(r.clone()), Exts::empty(), (i % 251) as u8))
        .collect()
}

pub fn count_table<K: Kmer>(reads: &[Vec<u8>], stranded: bool, min_count: usize) -> BoomHashMap2<K, Exts, u16> {
    let seqs = reads_as_seqs(reads);
    let (t, _) = filter_kmers::<K, _, _, _, _>(&seqs, &Box::new(CountFilter::new(min_count)), stranded, false, 4);
    t
}

/// reads -> k-mer table (count threshold) -> path-compressed BaseGraph with summed counts.
pub fn base_graph_counts<K: Kmer>(reads: &[Vec<u8>], stranded: bool, min_count: usize) -> BaseGraph<K, u16> {
    let t = count_table::<K>(reads, stranded, min_count);
    let spec = SimpleCompress::new(|a: u16, b: &u16| a.saturating_add(*b));
    compress_kmers_with_hash(stranded, &spec, &t)
}

/// Graph for a spec: through the pipeline, or (free-form node set) through `BaseGraph::add`;
/// then, when the spec says so, the node sequences are re-laid-out in the packed store with
/// unused bases between them (through the store's public fields: the same nodes, but a node's
/// offset is no longer the sum of the lengths before it).
pub fn base_graph_for<K: Kmer>(spec: &crate::spec::GraphSpec) -> BaseGraph<K, u16> {
    let mut g = base_graph_nodes::<K>(spec);
    if spec.store_gap > 0 && g.len() > 0 {
        use debruijn::dna_string::{DnaString, PackedDnaStringSet};
        use debruijn::Mer;
        let mut sequence = DnaString::new();
        let mut start = Vec::with_capacity(g.len());
        let mut length = Vec::with_capacity(g.len());
        for i in 0..g.len() {
            // the first node may or may not sit at offset 0
            let gap = (i * 31 + spec.store_gap) % (spec.store_gap + 1);
            for j in 0..gap {
                sequence.push(((i + j + spec.store_gap) % 4) as u8);
            }
            let s = g.sequences.get(i);
            start.push(sequence.len());
            for j in 0..s.len() {
                sequence.push(s.get(j));
            }
            length.push(s.len() as u32);
        }
        for j in 0..spec.store_gap % 5 {
            sequence.push((j % 4) as u8);
        }
        g.sequences = PackedDnaStringSet { sequence, start, length };
    }
    g
}

fn base_graph_nodes<K: Kmer>(spec: &crate::spec::GraphSpec) -> BaseGraph<K, u16> {
    let whole: BaseGraph<K, u16> = if spec.direct_nodes.is_empty() {
        base_graph_counts::<K>(&spec.reads, spec.stranded, spec.min_count)
    } else {
        let mut b: BaseGraph<K, u16> = BaseGraph::new(spec.stranded);
        for (i, (seq, exts)) in spec.direct_nodes.iter().enumerate() {
            b.add(seq.iter(), Exts::new(*exts), (i % 65535) as u16);
        }
        b
    };
    if spec.combine_parts < 2 || whole.len() < 2 {
        return whole;
    }
    // same node set, rebuilt as `combine` of several BaseGraphs
    let m = spec.combine_parts.min(whole.len());
    let n = whole.len();
    let mut parts: Vec<BaseGraph<K, u16>> = (0..m).map(|_| BaseGraph::new(spec.stranded)).collect();
    for i in 0..n {
        let p = if spec.combine_parts % 2 == 1 { i % m } else { i * m / n };
        let s = whole.sequences.get(i);
        let bases: Vec<u8> = (0..debruijn::Mer::len(&s)).map(|j| debruijn::Mer::get(&s, j)).collect();
        parts[p].add(bases.iter(), whole.exts[i], whole.data[i]);
    }
    BaseGraph::combine(parts.into_iter().filter(|g| g.len() > 0))
}

/// `base_graph_for`, honouring the spec's provenance flag (serde round trip before finishing).
pub fn base_graph_with_provenance<K: Kmer + serde::Serialize + serde::de::DeserializeOwned>(spec: &crate::spec::GraphSpec) -> BaseGraph<K, u16> {
    let b = base_graph_for::<K>(spec);
    if spec.via_serde {
        let bytes = serde_json::to_vec(&b).expect("serialise BaseGraph");
        serde_json::from_slice(&bytes).expect("deserialise BaseGraph")
    } else {
        b
    }
}
