//! C18 (b), parallel consumer: `Mphf::from_chunked_iterator_parallel` - scoped threads, a
//! mutexed work queue with a spin-wait barrier, SeqCst counters - drives the monitored
//! `NodeKmerIter`s under shuttle's seeded random scheduler. Which thread picks a node up,
//! and when, decides the call history each iterator sees; every call is checked.
//! (PCT is not used here: the constructor spin-waits while holding a lock, which a
//! strict-priority scheduler turns into a livelock that real preemptive schedulers do not have.)

use boomphf::Mphf;
use debruijn::graph::BaseGraph;
use debruijn::Kmer;
use serde::de::DeserializeOwned;
use serde::{Deserialize, Serialize};
use serde_json::{json, Value};
use simcore::driver::{Harness, Tier};
use simcore::model::kmer_bases;
use simcore::monitor::Mon;
use simcore::rec::{Rec, Violation};
use simcore::rng::Rng;
use simcore::spec::{gen_graph_spec, shrink_graph_spec, GraphSpec};
use std::collections::BTreeSet;
use std::sync::atomic::Ordering::Relaxed;
use std::sync::{Arc, Mutex};

use crate::c19::{run_batch, Sched, KTYPES};

#[derive(Clone, Debug, Serialize, Deserialize)]
pub struct Case {
    pub graph: GraphSpec,
    pub gamma_milli: u32,
    pub threads: usize,
    pub sched_seed: u64,
    pub executions: usize,
}

#[derive(Default)]
struct Shared {
    violation: Option<Violation>,
    executions: u64,
    nth_small: u64,
    nth_big: u64,
    next: u64,
    skipped_dups: u64,
    n: u64,
    slots: Option<Vec<u64>>,
}

fn scenario<K: Kmer + Send + Sync + Serialize + DeserializeOwned + 'static>(base: &BaseGraph<K, u16>, gamma: f64, threads: usize, sh: &Mutex<Shared>) {
    let g = base.clone().finish_serial();
    let mon = Mon::new(&g);
    let n = mon.total_kmers();
    if n == 0 {
        sh.lock().unwrap().executions += 1;
        return;
    }
    let mut all: BTreeSet<Vec<u8>> = BTreeSet::new();
    for m in &mon.models {
        for k in m {
            if !all.insert(kmer_bases(k)) {
                let mut s = sh.lock().unwrap();
                s.skipped_dups += 1;
                s.executions += 1;
                return;
            }
        }
    }
    let mphf = Mphf::<K>::from_chunked_iterator_parallel(gamma, &mon, None, n as u64, threads);
    let mut s = sh.lock().unwrap();
    s.executions += 1;
    s.n = n as u64;
    s.nth_small += mon.calls_nth_small.load(Relaxed);
    s.nth_big += mon.calls_nth_big.load(Relaxed);
    s.next += mon.calls_next.load(Relaxed);
    if s.violation.is_some() {
        return;
    }
    if let Some((class, msg)) = mon.first_error() {
        s.violation = Some(Violation::new(&class, "Mphf::from_chunked_iterator_parallel over &DebruijnGraph", msg));
        return;
    }
    let mut seen = vec![false; n];
    let mut slots = Vec::with_capacity(n);
    for m in &mon.models {
        for k in m {
            match mphf.try_hash(k) {
                Some(x) if (x as usize) < n && !seen[x as usize] => {
                    seen[x as usize] = true;
                    slots.push(x);
                }
                other => {
                    s.violation = Some(Violation::new(
                        "not-bijective",
                        "Mphf::from_chunked_iterator_parallel over &DebruijnGraph",
                        format!("k-mer {} got slot {:?} (n = {})", simcore::dna::to_ascii(&kmer_bases(k)), other, n),
                    ));
                    return;
                }
            }
        }
    }
    // the index must not depend on the schedule either
    match &s.slots {
        None => s.slots = Some(slots),
        Some(prev) if *prev != slots => {
            s.violation = Some(Violation::new(
                "schedule-dependent-index",
                "Mphf::from_chunked_iterator_parallel over &DebruijnGraph",
                "slot assignment differs between two schedules of the same construction".into(),
            ));
        }
        _ => {}
    }
}

fn run_k<K: Kmer + Send + Sync + Serialize + DeserializeOwned + 'static>(c: &Case, rec: &mut Rec) -> Result<(), Violation> {
    let base: BaseGraph<K, u16> = crate::c19::build_base::<K>(&c.graph);
    rec.ev("graph", base.len() as u64, 0);
    let gamma = c.gamma_milli as f64 / 1000.0;
    rec.choice("gamma_milli", c.gamma_milli as u64, c.gamma_milli == 1700);
    rec.choice("threads", c.threads as u64, c.threads == 1);
    rayon::set_max_workers(c.threads.max(2));
    let base = Arc::new(base);
    let sh = Arc::new(Mutex::new(Shared::default()));
    let slog: Option<crate::c19::ScheduleLog> = if rec.recording() { Some(Arc::new(Mutex::new(Vec::new()))) } else { None };
    {
        let (base, sh) = (base.clone(), sh.clone());
        let threads = c.threads;
        let (seed, n, sl) = (c.sched_seed, c.executions, slog.clone());
        let r = simcore::driver::guarded(move || run_batch(&Sched::Random, seed, n, sl, move || scenario::<K>(&base, gamma, threads, &sh)));
        if let Some(l) = &slog {
            crate::c19::note_schedules(rec, l);
        }
        if let Err((loc, msg)) = r {
            return Err(Violation::new("panic", &loc, format!("uncaught panic at {}: {}", loc, msg.chars().take(300).collect::<String>())));
        }
    }
    let s = sh.lock().unwrap();
    rec.add("executions", s.executions);
    rec.sim_time = s.executions;
    rec.add("consumer_next_calls", s.next);
    rec.add("consumer_nth_step_calls", s.nth_small);
    rec.add("consumer_nth_jump_calls", s.nth_big);
    rec.add("skipped_duplicate_kmers", s.skipped_dups);
    rec.env.u64(s.nth_small);
    rec.env.u64(s.nth_big);
    rec.env.u64(s.n);
    rec.env.u64(c.sched_seed);
    rec.ev("consumer_calls", s.nth_small, s.nth_big);
    if s.nth_big > 0 {
        rec.count("reach_real_consumer_used_jump_branch");
    }
    if s.n > 100 {
        rec.count("reach_over_100_keys_buffering_possible");
    }
    rec.nontrivial = c.threads >= 2 && s.n >= 2;
    match &s.violation {
        Some(v) => Err(v.clone()),
        None => Ok(()),
    }
}

pub struct MphfPar;

impl Harness for MphfPar {
    type Case = Case;
    fn property(&self) -> &'static str {
        "C18"
    }
    fn name(&self) -> &'static str {
        "c18-mphf-par"
    }
    fn engine(&self) -> &'static str {
        "T"
    }
    fn cases(&self, tier: Tier) -> u64 {
        match tier {
            Tier::Quick => 3_000,
            Tier::Thorough => 200_000,
        }
    }
    fn gen(&self, rng: &mut Rng, _tier: Tier) -> Case {
        let big = rng.chance(1, 10);
        let graph = if big { gen_graph_spec(rng, &KTYPES, 12, 200) } else { gen_graph_spec(rng, &KTYPES, 6, 100) };
        Case {
            graph,
            gamma_milli: match rng.below(4) {
                0 => 1700,
                1 => rng.range(1020, 1200) as u32,
                _ => rng.range(1020, 3000) as u32,
            },
            threads: rng.range(1, 4),
            sched_seed: rng.next_u64(),
            executions: 3,
        }
    }
    fn run(&self, c: &Case, rec: &mut Rec) -> Result<(), Violation> {
        use debruijn::kmer::*;
        type KmerK31 = VarIntKmer<u64, K31>;
        type Kmer6w = VarIntKmer<u64, K6>;
        type Kmer12w = VarIntKmer<u128, K12>;
        type Kmer20w = VarIntKmer<u128, K20>;
        match c.graph.ktype.as_str() {
            "Kmer33u" => run_k::<simcore::userkmer::Kmer33u>(c, rec),
            "Kmer80u" => run_k::<simcore::userkmer::Kmer80u>(c, rec),
            "Kmer6w" => run_k::<Kmer6w>(c, rec),
            "Kmer12w" => run_k::<Kmer12w>(c, rec),
            "Kmer20w" => run_k::<Kmer20w>(c, rec),
            "Kmer4" => run_k::<Kmer4>(c, rec),
            "Kmer5" => run_k::<Kmer5>(c, rec),
            "Kmer6" => run_k::<Kmer6>(c, rec),
            "Kmer8" => run_k::<Kmer8>(c, rec),
            "Kmer12" => run_k::<Kmer12>(c, rec),
            "Kmer14" => run_k::<Kmer14>(c, rec),
            "Kmer16" => run_k::<Kmer16>(c, rec),
            "Kmer20" => run_k::<Kmer20>(c, rec),
            "Kmer24" => run_k::<Kmer24>(c, rec),
            "KmerK31" => run_k::<KmerK31>(c, rec),
            "Kmer32" => run_k::<Kmer32>(c, rec),
            "Kmer40" => run_k::<Kmer40>(c, rec),
            "Kmer48" => run_k::<Kmer48>(c, rec),
            "Kmer64" => run_k::<Kmer64>(c, rec),
            o => panic!("k-mer type {} not in list", o),
        }
    }
    fn shrink(&self, c: &Case) -> Vec<Case> {
        let mut out = Vec::new();
        if c.executions > 1 {
            let mut x = c.clone();
            x.executions = 1;
            out.push(x);
        }
        if c.threads > 1 {
            let mut x = c.clone();
            x.threads -= 1;
            out.push(x);
        }
        for g in shrink_graph_spec(&c.graph) {
            let mut x = c.clone();
            x.graph = g;
            out.push(x);
        }
        if c.gamma_milli != 1700 {
            let mut x = c.clone();
            x.gamma_milli = 1700;
            out.push(x);
        }
        out
    }
    fn rule(&self) -> String {
        "case = (pipeline-built graph, gamma, consumer threads 1..4, scheduler seed, 3 executions); the real parallel chunked MPHF constructor drives the monitored iterators \
         under shuttle's random scheduler; non-trivial = >= 2 consumer threads and >= 2 k-mers; distinct = distinct (scheduler seed, call-count) tuples"
            .into()
    }
    fn components(&self) -> Value {
        json!({"real": ["boomphf Mphf::from_chunked_iterator_parallel (source with std::sync -> shuttle::sync)", "NodeKmerIter / NodeIntoIter behind a forwarding monitor"],
               "stub": ["crossbeam_utils::thread::scope (stand-in on shuttle::thread::scope)", "rayon (stand-in; only reached through the buffered-keys tail)"],
               "simulated": ["thread schedule (shuttle Random)", "gamma", "consumer thread count"]})
    }
}
