//! C04, last stage under engine T: shard graphs (built by the real sharder and shard
//! workers) are combined in a seeded order, finished on the simulated pool and
//! re-compressed (`compress_graph` finishes once more internally) under a seeded shuttle
//! schedule; the canonical form must equal the one-pass graph's and must not depend on
//! the schedule. Engine S runs the whole pipeline with every other environment choice but
//! a one-thread pool; this leg adds the schedule.

use debruijn::compression::{compress_graph, compress_kmers, compress_kmers_with_hash, SimpleCompress};
use debruijn::filter::{filter_kmers, remove_censored_exts, CountFilter};
use debruijn::graph::BaseGraph;
use debruijn::msp::msp_sequence;
use debruijn::{DnaBytes, Exts, Kmer};
use serde::{Deserialize, Serialize};
use serde_json::{json, Value};
use shuttle::scheduler::RandomScheduler;
use shuttle::Runner;
use simcore::dna::{self, GenCfg};
use simcore::driver::{Harness, Tier};
use simcore::model::{canon_diff, canon_graph, Canon};
use simcore::rec::{Digest, Rec, Violation};
use simcore::rng::Rng;
use simcore::spec::k_of;
use std::collections::BTreeMap;
use std::sync::{Arc, Mutex};

use crate::c19::{run_batch, shuttle_config, Sched};

#[derive(Clone, Debug, Serialize, Deserialize)]
pub struct Case {
    pub ktype: String,
    pub ptype: String,
    pub stranded: bool,
    pub threshold: usize,
    #[serde(with = "simcore::dna::serde_seqs")]
    pub reads: Vec<Vec<u8>>,
    /// order in which shard graphs reach the combiner (seed of a shuffle; 0 = bucket order)
    pub combine_seed: u64,
    pub sched: Sched,
    pub sched_seed: u64,
    pub executions: usize,
    pub max_workers: usize,
}

fn sat_add(a: u16, b: &u16) -> u16 {
    a.saturating_add(*b)
}

struct Built<K: Kmer> {
    shards: Vec<BaseGraph<K, u16>>,
    reference: Canon,
}

fn build<K: Kmer + Send + Sync + 'static, P: Kmer + 'static>(c: &Case) -> Built<K> {
    let out: Arc<Mutex<Option<Built<K>>>> = Arc::new(Mutex::new(None));
    let o2 = out.clone();
    let c = c.clone();
    Runner::new(RandomScheduler::new_from_seed(0, 1), shuttle_config()).run(move || {
        let k = K::k();
        let spec = SimpleCompress::new(sat_add as fn(u16, &u16) -> u16);
        let mut by_shard: BTreeMap<u32, Vec<(DnaBytes, Exts, u8)>> = BTreeMap::new();
        for r in &c.reads {
            for (b, e, v) in msp_sequence::<P, DnaBytes>(k, r, None, true) {
                by_shard.entry(b).or_default().push((v, e, 0u8));
            }
        }
        let mut shards = Vec::new();
        for (_, seqs) in by_shard {
            let (t, _) = filter_kmers::<K, _, u8, u16, CountFilter>(&seqs, &Box::new(CountFilter::new(c.threshold)), c.stranded, false, 4);
            shards.push(compress_kmers_with_hash(c.stranded, &spec, &t));
        }
        // one-pass reference
        let seqs: Vec<(DnaBytes, Exts, u8)> = c.reads.iter().filter(|r| r.len() >= k).map(|r| (DnaBytes(r.clone()), Exts::empty(), 0u8)).collect();
        let (t, _) = filter_kmers::<K, _, u8, u16, CountFilter>(&seqs, &Box::new(CountFilter::new(c.threshold)), c.stranded, false, 4);
        let mut v: Vec<(K, (Exts, u16))> = t.iter().map(|(k, e, d)| (*k, (*e, *d))).collect();
        v.sort_by_key(|x| x.0);
        remove_censored_exts(c.stranded, &mut v);
        let g = compress_kmers(c.stranded, &spec, &v).finish_serial();
        let reference = canon_graph(&g, &|d: &u16| d.to_string());
        *o2.lock().unwrap() = Some(Built { shards, reference });
    });
    let b = out.lock().unwrap().take().expect("built");
    b
}

#[derive(Default)]
struct Shared {
    violation: Option<Violation>,
    executions: u64,
    interleavings: Vec<(u64, u64)>,
    nodes: usize,
}

fn run_kp<K: Kmer + Send + Sync + 'static, P: Kmer + 'static>(c: &Case, rec: &mut Rec) -> Result<(), Violation> {
    let built = build::<K, P>(c);
    let n_shards = built.shards.len();
    rec.ev("shards", n_shards as u64, 0);
    let mut order: Vec<usize> = (0..n_shards).collect();
    if c.combine_seed != 0 {
        Rng::new(c.combine_seed).shuffle(&mut order);
    }
    rec.choice("combine_order_identity", (c.combine_seed == 0) as u64, c.combine_seed == 0);
    rec.choice("max_workers", c.max_workers as u64, c.max_workers == 1);
    rayon::set_max_workers(c.max_workers);
    let built = Arc::new(built);
    let order = Arc::new(order);
    let sh = Arc::new(Mutex::new(Shared::default()));
    let stranded = c.stranded;
    let slog: Option<crate::c19::ScheduleLog> = if rec.recording() { Some(Arc::new(Mutex::new(Vec::new()))) } else { None };
    {
        let (built, order, sh) = (built.clone(), order.clone(), sh.clone());
        let (sched, seed, n, sl) = (c.sched.clone(), c.sched_seed, c.executions, slog.clone());
        let r = simcore::driver::guarded(move || run_batch(&sched, seed, n, sl, move || {
            rayon::reset_interleaving();
            let warm = shuttle::thread::spawn(|| shuttle::thread::yield_now());
            shuttle::thread::yield_now();
            warm.join().unwrap();
            let spec = SimpleCompress::new(sat_add as fn(u16, &u16) -> u16);
            let graphs: Vec<BaseGraph<K, u16>> = order.iter().map(|i| built.shards[*i].clone()).collect();
            let combined = if graphs.is_empty() { BaseGraph::<K, u16>::new(stranded) } else { BaseGraph::combine(graphs.into_iter()) };
            let out = compress_graph(stranded, &spec, combined.finish(), None);
            let il = rayon::interleaving();
            let canon = canon_graph(&out, &|d: &u16| d.to_string());
            let mut s = sh.lock().unwrap();
            s.executions += 1;
            s.interleavings.push(il);
            s.nodes = out.len();
            if s.violation.is_none() {
                if let Some((class, detail)) = canon_diff(&canon, &built.reference) {
                    s.violation = Some(Violation::new(class, "combine -> finish -> compress_graph under a schedule vs one-pass", format!("A = sharded under schedule, B = one pass: {}", detail)));
                }
            }
        }));
        if let Some(l) = &slog {
            crate::c19::note_schedules(rec, l);
        }
        if let Err((loc, msg)) = r {
            return Err(Violation::new("panic", &loc, format!("uncaught panic at {}: {}", loc, msg.chars().take(300).collect::<String>())));
        }
    }
    let s = sh.lock().unwrap();
    rec.add("executions", s.executions);
    rec.sim_time = s.executions;
    let mut d = Digest::new();
    let mut switches = 0;
    for (h, sw) in &s.interleavings {
        d.u64(*h);
        switches += sw;
    }
    rec.env.u64(d.0);
    rec.add("item_level_worker_switches", switches);
    if n_shards > 1 {
        rec.count("reach_multi_shard");
    }
    rec.nontrivial = n_shards > 1 && s.nodes >= 1 && switches > 0;
    match &s.violation {
        Some(v) => Err(v.clone()),
        None => Ok(()),
    }
}

pub struct C04T;

impl Harness for C04T {
    type Case = Case;
    fn property(&self) -> &'static str {
        "C04"
    }
    fn name(&self) -> &'static str {
        "c04-recompress-sched"
    }
    fn engine(&self) -> &'static str {
        "T"
    }
    fn cases(&self, tier: Tier) -> u64 {
        match tier {
            Tier::Quick => 3_000,
            Tier::Thorough => 200_000,
        }
    }
    fn gen(&self, rng: &mut Rng, _tier: Tier) -> Case {
        let pair = *rng.pick(&[("Kmer6", "Kmer3"), ("Kmer6", "Kmer3"), ("Kmer8", "Kmer4"), ("Kmer16", "Kmer6")]);
        let k = k_of(pair.0);
        let (reads, _) = dna::gen_reads(
            rng,
            &GenCfg {
                k,
                max_reads: 8,
                max_len: 2 * k + 50,
                allow_short: true,
            },
        );
        Case {
            ktype: pair.0.into(),
            ptype: pair.1.into(),
            stranded: rng.chance(1, 3),
            threshold: if rng.chance(1, 4) { 2 } else { 1 },
            reads,
            combine_seed: if rng.chance(1, 4) { 0 } else { rng.next_u64() | 1 },
            sched: match rng.below(3) {
                0 => Sched::Pct(rng.range(1, 4)),
                _ => Sched::Random,
            },
            sched_seed: rng.next_u64(),
            executions: 2,
            max_workers: *rng.pick(&[1usize, 2, 3, 4, 8]),
        }
    }
    fn run(&self, c: &Case, rec: &mut Rec) -> Result<(), Violation> {
        use debruijn::kmer::*;
        match (c.ktype.as_str(), c.ptype.as_str()) {
            ("Kmer6", "Kmer3") => run_kp::<Kmer6, Kmer3>(c, rec),
            ("Kmer8", "Kmer4") => run_kp::<Kmer8, Kmer4>(c, rec),
            ("Kmer16", "Kmer6") => run_kp::<Kmer16, Kmer6>(c, rec),
            o => panic!("pair {:?} not in list", o),
        }
    }
    fn shrink(&self, c: &Case) -> Vec<Case> {
        let mut out = Vec::new();
        let k = k_of(&c.ktype);
        if c.combine_seed != 0 {
            let mut x = c.clone();
            x.combine_seed = 0;
            out.push(x);
        }
        if c.executions > 1 {
            let mut x = c.clone();
            x.executions = 1;
            out.push(x);
        }
        if c.max_workers > 1 {
            let mut x = c.clone();
            x.max_workers = 1;
            out.push(x);
        }
        for i in 0..c.reads.len() {
            let mut x = c.clone();
            x.reads.remove(i);
            out.push(x);
        }
        for i in 0..c.reads.len() {
            let n = c.reads[i].len();
            if n > k {
                for (a, b) in [(0, n / 2 + k / 2), (n / 2 - (k / 2).min(n / 2), n), (1, n), (0, n - 1)] {
                    if b > a && b - a >= k && b - a < n {
                        let mut x = c.clone();
                        x.reads[i] = c.reads[i][a..b].to_vec();
                        out.push(x);
                    }
                }
            }
        }
        out
    }
    fn rule(&self) -> String {
        "case = (read set, (K,P), strandedness, threshold, combine order, scheduler Random|PCT, scheduler seed, pool bound); shard graphs from the real sharder and workers are combined, \
         finished and re-compressed under 2 seeded schedules; oracle = canonical form equals the one-pass graph's; non-trivial = > 1 shard and workers interleaved at item level; \
         distinct = distinct item-level interleaving batches"
            .into()
    }
    fn components(&self) -> Value {
        json!({"real": ["msp_sequence", "filter_kmers", "compress_kmers_with_hash", "BaseGraph::combine", "finish()", "compress_graph (incl. its internal finish())", "boomphf source with shuttle primitives"],
               "stub": ["rayon (stand-in on shuttle threads)"], "simulated": ["thread schedule", "combine order", "pool size / work splitting"]})
    }
}
