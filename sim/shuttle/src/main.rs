//! Engine T: the repository's real code and the real boomphf source, with boomphf's
//! `std::sync` imports pointed at `shuttle::sync` and rayon / crossbeam replaced by
//! stand-ins on shuttle threads. The shuttle scheduler (seeded Random or PCT) decides
//! every interleaving at atomic-operation granularity; the rayon stand-in draws its
//! item->worker assignment and visiting orders from `shuttle::rand`. One case = one
//! seeded batch of executions, exactly repeatable.

mod c04t;
mod c18par;
mod c19;

use simcore::driver::{self, Harness, Opts};

fn run<H: Harness>(h: H, opts: &Opts) -> i32 {
    driver::search(&h, opts, &driver::no_wrap)
}

fn main() {
    let args: Vec<String> = std::env::args().collect();
    if args.len() < 2 {
        eprintln!("usage: sim-shuttle <check> [--tier quick|thorough] [--seed N] [--cases N] [--workers N] [--replay FILE]");
        std::process::exit(2);
    }
    driver::install_panic_hook();
    if args[1] == "nondet-selftest" {
        let seed: u64 = args.get(2).and_then(|s| s.parse().ok()).unwrap_or(1);
        std::process::exit(c19::nondet_selftest(seed, 300));
    }
    let mut opts = Opts::from_args(&args[2..]);
    // Engine T always isolates cases in single-threaded processes: shuttle primitives are
    // only sound within one OS thread, and statics of the code under test (shuttle atomics in
    // the shadow crate) must not be shared between concurrently running executions.
    if opts.procs == 0 && opts.stripe.is_none() && opts.replay.is_none() {
        opts.procs = opts.workers.max(1);
    }
    let code = match args[1].as_str() {
        "c04-recompress-sched" => run(c04t::C04T, &opts),
        "c19-finish" => run(c19::C19, &opts),
        "c18-mphf-par" => run(c18par::MphfPar, &opts),
        _ => {
            eprintln!("unknown check {}", args[1]);
            2
        }
    };
    std::process::exit(code);
}
