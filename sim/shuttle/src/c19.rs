//! C19 - index construction is schedule-independent and lookups are exact.
//!
//! One case: a pipeline-built BaseGraph and a seeded batch of shuttle executions. In each
//! execution the graph is finished on the simulated pool (`finish()`), serially
//! (`finish_serial()`), and on the pool again under the continuing - hence different -
//! schedule; every user-visible answer of the three is compared, the two parallel builds
//! must serialise to identical bytes, and lookups are checked against a BTreeMap index.

use debruijn::graph::BaseGraph;
use debruijn::Kmer;
use serde::de::DeserializeOwned;
use serde::{Deserialize, Serialize};
use serde_json::{json, Value};
use shuttle::scheduler::{PctScheduler, RandomScheduler};
use shuttle::{Config, FailurePersistence, MaxSteps, Runner};
use simcore::driver::{Harness, Tier};
use simcore::model::{check_against_ref_index, first_diff, kmer_from_bases, probes, transcript};
use simcore::rec::{digest_str, Digest, Rec, Violation};
use simcore::rng::Rng;
use simcore::spec::{gen_graph_spec, shrink_graph_spec, GraphSpec};
use std::sync::{Arc, Mutex};

pub const KTYPES: [&str; 19] = ["Kmer4", "Kmer5", "Kmer6", "Kmer8", "Kmer12", "Kmer14", "Kmer16", "Kmer20", "Kmer24", "KmerK31", "Kmer32", "Kmer40", "Kmer48", "Kmer64", "Kmer6w", "Kmer12w", "Kmer20w", "Kmer33u", "Kmer80u"];

#[derive(Clone, Debug, Serialize, Deserialize, PartialEq)]
pub enum Sched {
    Random,
    Pct(usize),
}

#[derive(Clone, Debug, Serialize, Deserialize)]
pub struct Case {
    pub graph: GraphSpec,
    pub sched: Sched,
    pub sched_seed: u64,
    /// executions in this batch (each under a different schedule)
    pub executions: usize,
    /// upper bound of the simulated pool size (1..=16); the actual size per call is drawn below it
    pub max_workers: usize,
    /// extra random probe k-mers (seed)
    pub probe_seed: u64,
    /// history on one thread: a different graph of the same shape is finished, queried and
    /// then replaced IN THE SAME VARIABLE by the graph under test
    #[serde(default)]
    pub prior_graph: bool,
    /// state carried between public calls: `fix_exts(Some(mask))` with this seeded node mask is
    /// applied to all three graphs before they are queried (0 = not applied)
    #[serde(default)]
    pub fix_mask_seed: u64,
    /// two caller threads finish two different graphs at the same time (the second graph is the
    /// reverse-complemented variant of the spec); both results are compared with their serial builds
    #[serde(default)]
    pub concurrent_callers: bool,
}

pub fn shuttle_config() -> Config {
    let mut c = Config::new();
    c.stack_size = 1 << 20;
    c.failure_persistence = FailurePersistence::None;
    c.max_steps = MaxSteps::FailAfter(20_000_000);
    c.silence_warnings = true;
    c
}

#[derive(Default)]
pub struct Shared {
    pub violation: Option<Violation>,
    pub first_transcript: Option<u64>,
    pub executions: u64,
    pub interleavings: Vec<(u64, u64)>,
    pub nodes: usize,
    pub levels: usize,
}

/// Scheduler wrapper that writes down every decision of the wrapped (seeded) scheduler:
/// the explicit thread schedule of each execution, for the replay file.
pub struct Recording<S> {
    inner: S,
    log: Arc<Mutex<Vec<Vec<u32>>>>,
}

impl<S: shuttle::scheduler::Scheduler> shuttle::scheduler::Scheduler for Recording<S> {
    fn new_execution(&mut self) -> Option<shuttle::scheduler::Schedule> {
        let r = self.inner.new_execution();
        if r.is_some() {
            self.log.lock().unwrap().push(Vec::new());
        }
        r
    }
    fn next_task(
        &mut self,
        runnable: &[&shuttle::scheduler::Task],
        current: Option<shuttle::scheduler::TaskId>,
        is_yielding: bool,
    ) -> Option<shuttle::scheduler::TaskId> {
        let c = self.inner.next_task(runnable, current, is_yielding);
        if let Some(t) = c {
            if let Some(l) = self.log.lock().unwrap().last_mut() {
                l.push(usize::from(t) as u32);
            }
        }
        c
    }
    fn next_u64(&mut self) -> u64 {
        self.inner.next_u64()
    }
}

pub type ScheduleLog = Arc<Mutex<Vec<Vec<u32>>>>;

/// Run-length encoded schedule: "task x steps" in order.
pub fn rle(s: &[u32]) -> String {
    let mut out = String::new();
    let mut i = 0;
    while i < s.len() {
        let mut j = i;
        while j < s.len() && s[j] == s[i] {
            j += 1;
        }
        out.push_str(&format!("{}x{} ", s[i], j - i));
        i = j;
    }
    out
}

pub fn note_schedules(rec: &mut Rec, log: &ScheduleLog) {
    for (i, s) in log.lock().unwrap().iter().enumerate() {
        rec.note("schedule", &format!("execution {}: {} steps, task x run-length: {}", i, s.len(), rle(s)));
    }
}

pub fn run_batch(sched: &Sched, seed: u64, n: usize, record: Option<ScheduleLog>, f: impl Fn() + Send + Sync + 'static) {
    match (sched, record) {
        (Sched::Random, None) => {
            Runner::new(RandomScheduler::new_from_seed(seed, n), shuttle_config()).run(f);
        }
        (Sched::Pct(d), None) => {
            Runner::new(PctScheduler::new_from_seed(seed, *d, n), shuttle_config()).run(f);
        }
        (Sched::Random, Some(log)) => {
            Runner::new(Recording { inner: RandomScheduler::new_from_seed(seed, n), log }, shuttle_config()).run(f);
        }
        (Sched::Pct(d), Some(log)) => {
            Runner::new(Recording { inner: PctScheduler::new_from_seed(seed, *d, n), log }, shuttle_config()).run(f);
        }
    }
}

/// Build the BaseGraph through the real pipeline inside a (single-task) shuttle execution:
/// the pipeline's own hash tables are boomphf maps, whose atomics only exist inside one.
pub fn build_base<K: Kmer + Send + Sync + Serialize + DeserializeOwned + 'static>(g: &GraphSpec) -> BaseGraph<K, u16> {
    let out: Arc<Mutex<Option<BaseGraph<K, u16>>>> = Arc::new(Mutex::new(None));
    let o2 = out.clone();
    let spec = g.clone();
    Runner::new(RandomScheduler::new_from_seed(0, 1), shuttle_config()).run(move || {
        let b = simcore::pipe::base_graph_with_provenance::<K>(&spec);
        *o2.lock().unwrap() = Some(b);
    });
    let b = out.lock().unwrap().take().expect("graph built");
    b
}

fn scenario<K: Kmer + Send + Sync + Serialize + DeserializeOwned + 'static>(
    base: &BaseGraph<K, u16>,
    prior: Option<&BaseGraph<K, u16>>,
    extra: &[K],
    fix_mask_seed: u64,
    concurrent_callers: bool,
    bigger: Option<&BaseGraph<K, u16>>,
    sh: &Mutex<Shared>,
) {
    rayon::reset_interleaving();
    // PCT's warm-up execution insists on seeing at least one step with two runnable tasks
    let warm = shuttle::thread::spawn(|| shuttle::thread::yield_now());
    shuttle::thread::yield_now();
    warm.join().unwrap();
    let mut g1 = match prior {
        Some(p) => {
            // an earlier graph lives in this variable first and answers some lookups
            let g0 = p.clone().finish_serial();
            let pp = probes(&g0, &[]);
            let mut acc = 0usize;
            for k in pp.iter().take(96) {
                acc += g0.find_link(*k, debruijn::Dir::Left).is_some() as usize + g0.find_link(*k, debruijn::Dir::Right).is_some() as usize;
            }
            std::hint::black_box(acc);
            g0
        }
        None => BaseGraph::<K, u16>::new(base.stranded).finish_serial(),
    };
    rayon::reset_interleaving();
    if concurrent_callers && prior.is_some() {
        let other = prior.unwrap();
        let (ga, gb) = shuttle::thread::scope(|s| {
            let ha = s.spawn(|| base.clone().finish());
            let hb = s.spawn(|| other.clone().finish());
            (ha.join().unwrap(), hb.join().unwrap())
        });
        g1 = ga;
        if let Some(big) = bigger {
            let gp = big.clone().finish();
            let gs = big.clone().finish_serial();
            let pp = probes(&gs, &[]);
            if let Some(d) = first_diff(&transcript(&gp, &pp), &transcript(&gs, &pp)) {
                let mut s = sh.lock().unwrap();
                if s.violation.is_none() {
                    s.violation = Some(Violation::new(
                        "parallel-vs-serial",
                        "BaseGraph::finish after two concurrent finish() calls",
                        format!("a larger graph finished afterwards answers differently from its serial build: {}", d),
                    ));
                }
            }
        }
        // the second caller's graph must equal its own serial build too
        let gs = other.clone().finish_serial();
        let pp = probes(&gs, &[]);
        if let Some(d) = first_diff(&transcript(&gb, &pp), &transcript(&gs, &pp)) {
            let mut s = sh.lock().unwrap();
            if s.violation.is_none() {
                s.violation = Some(Violation::new(
                    "parallel-vs-serial",
                    "BaseGraph::finish called from two threads at once",
                    format!("the second caller's graph answers differently from its serial build: {}", d),
                ));
            }
        }
    } else {
        g1 = base.clone().finish();
    }
    let il = rayon::interleaving();
    let mut g2 = base.clone().finish_serial();
    let mut g3 = base.clone().finish();
    if fix_mask_seed != 0 {
        // the same pruning call on all three: lookups must stay exact for every node afterwards
        let mut mr = Rng::new(fix_mask_seed);
        let mut mask = bit_set::BitSet::with_capacity(g1.len());
        for i in 0..g1.len() {
            if mr.chance(2, 3) {
                mask.insert(i);
            }
        }
        g1.fix_exts(Some(&mask));
        g2.fix_exts(Some(&mask));
        g3.fix_exts(Some(&mask));
    }
    let p = probes(&g1, extra);
    let t1 = transcript(&g1, &p);
    let t2 = transcript(&g2, &p);
    let t3 = transcript(&g3, &p);
    let mut s = sh.lock().unwrap();
    s.executions += 1;
    s.interleavings.push(il);
    s.nodes = g1.len();
    if s.violation.is_some() {
        return;
    }
    if let Some(d) = first_diff(&t1, &t2) {
        s.violation = Some(Violation::new("parallel-vs-serial", "BaseGraph::finish vs finish_serial", format!("finish() and finish_serial() answer differently: {}", d)));
        return;
    }
    if let Some(d) = first_diff(&t1, &t3) {
        s.violation = Some(Violation::new("run-to-run", "BaseGraph::finish", format!("two finish() runs under different schedules answer differently: {}", d)));
        return;
    }
    let j1 = serde_json::to_string(&g1).unwrap();
    let j3 = serde_json::to_string(&g3).unwrap();
    if j1 != j3 {
        s.violation = Some(Violation::new("run-to-run", "BaseGraph::finish", "two finish() runs under different schedules serialise to different bytes (index differs)".into()));
        return;
    }
    let td = digest_str(&t1.join("\n")) ^ digest_str(&j1);
    match s.first_transcript {
        None => s.first_transcript = Some(td),
        Some(x) if x != td => {
            s.violation = Some(Violation::new("run-to-run", "BaseGraph::finish", "finish() differs between executions of the same batch".into()));
            return;
        }
        _ => {}
    }
    match check_against_ref_index(&g1, &p) {
        Ok(_) => {}
        Err(e) => {
            s.violation = Some(Violation::new("lookup-inexact", "DebruijnGraph::find_link / edges", e));
        }
    }
}

fn run_k<K: Kmer + Send + Sync + Serialize + DeserializeOwned + 'static>(c: &Case, rec: &mut Rec) -> Result<(), Violation> {
    let base: BaseGraph<K, u16> = build_base::<K>(&c.graph);
    rec.ev("graph", base.len() as u64, 0);
    let mut prng = Rng::new(c.probe_seed);
    let extra: Vec<K> = (0..16)
        .map(|_| {
            let b: Vec<u8> = (0..K::k()).map(|_| prng.below(4) as u8).collect();
            kmer_from_bases::<K>(&b)
        })
        .collect();
    let prior: Option<BaseGraph<K, u16>> = if c.prior_graph || c.concurrent_callers {
        let mut spec = c.graph.clone();
        for r in spec.reads.iter_mut() {
            *r = simcore::dna::rc(r);
        }
        for n in spec.direct_nodes.iter_mut() {
            n.0 = simcore::dna::rc(&n.0);
        }
        Some(build_base::<K>(&spec))
    } else {
        None
    };
    // for the concurrent-callers variant: a third, larger graph (one node per k-mer of the same reads)
    // finished AFTER the two concurrent calls - process-wide state they may have left behind shows here
    let bigger: Option<BaseGraph<K, u16>> = if c.concurrent_callers && c.graph.direct_nodes.is_empty() {
        let out: Arc<Mutex<Option<BaseGraph<K, u16>>>> = Arc::new(Mutex::new(None));
        let (o2, spec) = (out.clone(), c.graph.clone());
        Runner::new(RandomScheduler::new_from_seed(0, 1), shuttle_config()).run(move || {
            let t = simcore::pipe::count_table::<K>(&spec.reads, spec.stranded, 1);
            let mut b: BaseGraph<K, u16> = BaseGraph::new(spec.stranded);
            for (kmer, exts, _) in t.iter() {
                b.add(debruijn::Mer::iter(kmer), *exts, 1);
            }
            *o2.lock().unwrap() = Some(b);
        });
        let b = out.lock().unwrap().take();
        b
    } else {
        None
    };
    let bigger = Arc::new(bigger);
    let base = Arc::new(base);
    let prior = Arc::new(prior);
    let extra = Arc::new(extra);
    let sh = Arc::new(Mutex::new(Shared::default()));
    rayon::set_max_workers(c.max_workers);
    rec.choice("max_workers", c.max_workers as u64, c.max_workers == 1);
    rec.choice(
        "scheduler",
        match c.sched {
            Sched::Random => 0,
            Sched::Pct(d) => d as u64,
        },
        false,
    );
    let slog: Option<ScheduleLog> = if rec.recording() { Some(Arc::new(Mutex::new(Vec::new()))) } else { None };
    {
        let (base, prior, extra, sh, bigger) = (base.clone(), prior.clone(), extra.clone(), sh.clone(), bigger.clone());
        let fix_mask_seed = c.fix_mask_seed;
        let concurrent_callers = c.concurrent_callers;
        let (sched, seed, n, sl) = (c.sched.clone(), c.sched_seed, c.executions, slog.clone());
        let r = simcore::driver::guarded(move || run_batch(&sched, seed, n, sl, move || scenario::<K>(&base, prior.as_ref().as_ref(), &extra, fix_mask_seed, concurrent_callers, bigger.as_ref().as_ref(), &sh)));
        if let Some(l) = &slog {
            note_schedules(rec, l);
        }
        if let Err((loc, msg)) = r {
            return Err(Violation::new("panic", &loc, format!("uncaught panic at {}: {}", loc, msg.chars().take(300).collect::<String>())));
        }
    }
    let s = sh.lock().unwrap();
    rec.add("executions", s.executions);
    rec.sim_time = s.executions;
    let mut d = Digest::new();
    let mut switches = 0;
    for (h, sw) in &s.interleavings {
        d.u64(*h);
        switches += sw;
    }
    rec.env.u64(d.0);
    rec.ev("interleavings", d.0, switches);
    rec.add("item_level_worker_switches", switches);
    if switches > 0 {
        rec.count("reach_workers_interleaved_at_item_level");
    }
    rec.nontrivial = s.nodes >= 2 && switches > 0;
    match &s.violation {
        Some(v) => Err(v.clone()),
        None => Ok(()),
    }
}

pub struct C19;

impl Harness for C19 {
    type Case = Case;
    fn property(&self) -> &'static str {
        "C19"
    }
    fn name(&self) -> &'static str {
        "c19-finish"
    }
    fn engine(&self) -> &'static str {
        "T"
    }
    fn cases(&self, tier: Tier) -> u64 {
        match tier {
            Tier::Quick => 6_000,
            Tier::Thorough => 400_000,
        }
    }
    fn gen(&self, rng: &mut Rng, tier: Tier) -> Case {
        let big = rng.chance(1, if tier == Tier::Thorough { 20 } else { 60 });
        let mut graph = if big { gen_graph_spec(rng, &KTYPES, 40, 400) } else { gen_graph_spec(rng, &KTYPES, 8, 140) };
        if rng.chance(1, 3) {
            // free-form node set through the public BaseGraph::add (small even K: palindromic ends are common)
            if rng.chance(1, 2) {
                graph.ktype = rng.pick(&["Kmer4", "Kmer6", "Kmer8"]).to_string();
            }
            let k = simcore::spec::k_of(&graph.ktype);
            let n = if big { 200 } else { rng.range(1, 40) };
            graph.direct_nodes = simcore::spec::gen_direct_nodes(rng, &graph.reads, k, n);
        }
        Case {
            graph,
            sched: match rng.below(3) {
                0 => Sched::Pct(rng.range(1, 5)),
                _ => Sched::Random,
            },
            sched_seed: rng.next_u64(),
            executions: if big { 2 } else { 4 },
            max_workers: *rng.pick(&[1usize, 2, 2, 3, 4, 4, 8, 16]),
            probe_seed: rng.next_u64(),
            prior_graph: rng.chance(1, 4),
            fix_mask_seed: if rng.chance(1, 5) { rng.next_u64() | 1 } else { 0 },
            concurrent_callers: rng.chance(1, 5),
        }
    }
    fn run(&self, c: &Case, rec: &mut Rec) -> Result<(), Violation> {
        use debruijn::kmer::*;
        type KmerK31 = VarIntKmer<u64, K31>;
        // user-declared types whose storage integer is much wider than 2K bits
        type Kmer6w = VarIntKmer<u64, K6>;
        type Kmer12w = VarIntKmer<u128, K12>;
        type Kmer20w = VarIntKmer<u128, K20>;
        match c.graph.ktype.as_str() {
            "Kmer33u" => run_k::<simcore::userkmer::Kmer33u>(c, rec),
            "Kmer80u" => run_k::<simcore::userkmer::Kmer80u>(c, rec),
            "Kmer6w" => run_k::<Kmer6w>(c, rec),
            "Kmer12w" => run_k::<Kmer12w>(c, rec),
            "Kmer20w" => run_k::<Kmer20w>(c, rec),
            "Kmer4" => run_k::<Kmer4>(c, rec),
            "Kmer5" => run_k::<Kmer5>(c, rec),
            "Kmer6" => run_k::<Kmer6>(c, rec),
            "Kmer8" => run_k::<Kmer8>(c, rec),
            "Kmer12" => run_k::<Kmer12>(c, rec),
            "Kmer14" => run_k::<Kmer14>(c, rec),
            "Kmer16" => run_k::<Kmer16>(c, rec),
            "Kmer20" => run_k::<Kmer20>(c, rec),
            "Kmer24" => run_k::<Kmer24>(c, rec),
            "KmerK31" => run_k::<KmerK31>(c, rec),
            "Kmer32" => run_k::<Kmer32>(c, rec),
            "Kmer40" => run_k::<Kmer40>(c, rec),
            "Kmer48" => run_k::<Kmer48>(c, rec),
            "Kmer64" => run_k::<Kmer64>(c, rec),
            o => panic!("k-mer type {} not in list", o),
        }
    }
    fn shrink(&self, c: &Case) -> Vec<Case> {
        let mut out = Vec::new();
        if c.prior_graph {
            let mut x = c.clone();
            x.prior_graph = false;
            out.push(x);
        }
        if c.fix_mask_seed != 0 {
            let mut x = c.clone();
            x.fix_mask_seed = 0;
            out.push(x);
        }
        if c.concurrent_callers {
            let mut x = c.clone();
            x.concurrent_callers = false;
            out.push(x);
        }
        if c.executions > 1 {
            let mut x = c.clone();
            x.executions = c.executions / 2;
            out.push(x);
        }
        if c.max_workers > 2 {
            let mut x = c.clone();
            x.max_workers = 2;
            out.push(x);
        }
        if let Sched::Pct(d) = c.sched {
            if d > 1 {
                let mut x = c.clone();
                x.sched = Sched::Pct(d - 1);
                out.push(x);
            }
        }
        for g in shrink_graph_spec(&c.graph) {
            let mut x = c.clone();
            x.graph = g;
            out.push(x);
        }
        out
    }
    fn rule(&self) -> String {
        "case = (pipeline-built graph, scheduler Random|PCT(depth 1..5), scheduler seed, executions per batch, pool-size bound 1..16); each execution finishes the graph on the \
         simulated pool twice and serially once and compares every answer; non-trivial = graph has >= 2 nodes and two workers interleaved at item level; \
         distinct = distinct item-level interleavings (digest of the (worker, item) sequence in which closures ran)"
            .into()
    }
    fn components(&self) -> Value {
        json!({"real": ["debruijn BaseGraph::finish / finish_serial / find_link / edges", "boomphf 0.6.0 source (Mphf::new_parallel, BitVector, BoomHashMap) with std::sync -> shuttle::sync (3 import lines, verified at setup)"],
               "stub": ["rayon (stand-in: seeded item->worker plan on shuttle threads; more permissive than rayon)"],
               "simulated": ["thread schedule (shuttle Random / PCT)", "pool size and work splitting"],
               "limits": ["shuttle treats every memory ordering as SeqCst; Relaxed semantics are covered by engine M (miri) on small graphs"]})
    }
}

/// Selftest: a sample of C19 cases under shuttle's UncontrolledNondeterminismCheckScheduler,
/// which executes every schedule twice and fails if the second execution makes a different
/// sequence of scheduling-relevant calls (a nondeterminism source the simulator does not own).
pub fn nondet_selftest(seed: u64, n_cases: u64) -> i32 {
    use debruijn::kmer::Kmer6;
    use shuttle::scheduler::UncontrolledNondeterminismCheckScheduler;
    let h = C19;
    let mut bad = 0;
    let mut execs = 0u64;
    for idx in 0..n_cases {
        let mut rng = Rng::new(simcore::rng::derive(seed, "c19-nondet", idx));
        let mut c = h.gen(&mut rng, Tier::Quick);
        c.graph.ktype = "Kmer6".into();
        if !c.graph.direct_nodes.is_empty() {
            // regenerate the free-form node set for the k-mer type used here
            c.graph.direct_nodes = simcore::spec::gen_direct_nodes(&mut rng, &c.graph.reads, 6, 30);
        }
        let base = Arc::new(build_base::<Kmer6>(&c.graph));
        let sh = Arc::new(Mutex::new(Shared::default()));
        rayon::set_max_workers(c.max_workers);
        let (b2, s2) = (base.clone(), sh.clone());
        let r = simcore::driver::guarded(move || {
            let sched = UncontrolledNondeterminismCheckScheduler::new(RandomScheduler::new_from_seed(c.sched_seed, 3));
            Runner::new(sched, shuttle_config()).run(move || scenario::<Kmer6>(&b2, None, &[], 0, false, None, &s2));
        });
        execs += sh.lock().unwrap().executions;
        if let Err((loc, msg)) = r {
            bad += 1;
            println!("[nondet-selftest] case {}: {} at {}", idx, msg, loc);
        }
    }
    println!("[nondet-selftest] {} cases, {} executions (each schedule run twice), nondeterminism reports: {}", n_cases, execs, bad);
    if bad > 0 {
        2
    } else {
        0
    }
}
