#!/usr/bin/env python3
"""Seeded-defect bookkeeping.

  seeded.py verify <worktree> <m-dir-name> <seeded-id>
      Confirm, in the scratch worktree, that the change (a) applies to HEAD, (b) builds,
      (c) passes the existing test suite, (d) makes the demonstration fail, and that the
      demonstration passes without it. On success copy patch/demo/meta to /verif/seeded/<seeded-id>/.
  seeded.py detect <seeded-id> [--tier quick] [--checks C04,C05]
      Apply /verif/seeded/<id>/patch.diff to /repo, run the property's check (and optionally
      others), undo the change straight afterwards, record the outcome in seeded/<id>/detect.json.
"""
import json
import os
import shutil
import subprocess
import sys
import time

VERIF = "/verif"
ENV = dict(os.environ, CARGO_NET_OFFLINE="true", CARGO_TERM_COLOR="never")


def sh(cmd, cwd, env=None, timeout=3600):
    r = subprocess.run(cmd, cwd=cwd, env=env or ENV, stdout=subprocess.PIPE, stderr=subprocess.STDOUT, text=True, timeout=timeout)
    return r.returncode, r.stdout


def verify(wt, mdir, sid):
    src = os.path.join(wt, "out", mdir)
    patch = os.path.join(src, "patch.diff")
    demo = os.path.join(src, "demo.rs")
    meta = json.load(open(os.path.join(src, "meta.json")))
    env = dict(ENV, CARGO_TARGET_DIR=os.path.join(wt, "target"))
    res = {"ran": []}
    tname = "demo_" + sid.replace("-", "_").lower()
    tfile = os.path.join(wt, "tests", tname + ".rs")

    def clean():
        sh(["git", "checkout", "--", "."], wt)
        sh(["git", "clean", "-fdq", "tests"], wt)

    clean()
    os.makedirs(os.path.join(wt, "tests"), exist_ok=True)
    # demo passes without the change
    shutil.copy(demo, tfile)
    c, out = sh(["cargo", "test", "--offline", "--test", tname], wt, env)
    res["demo_passes_without_change"] = c == 0
    res["ran"].append("unchanged: cargo test --offline --test " + tname + " -> exit %d" % c)
    os.remove(tfile)
    # apply
    c, out = sh(["git", "apply", "--check", patch], wt)
    res["applies"] = c == 0
    if c != 0:
        res["error"] = out[-500:]
        clean()
        return res, meta
    sh(["git", "apply", patch], wt)
    c1, _ = sh(["cargo", "build", "--offline"], wt, env)
    c2, _ = sh(["cargo", "build", "--offline", "--features", "verif_hooks"], wt, env)
    res["builds"] = c1 == 0 and c2 == 0
    c, out = sh(["cargo", "test", "--offline", "--no-fail-fast"], wt, env, timeout=7200)
    res["suite_passes_with_change"] = c == 0
    res["ran"].append("changed: cargo test --offline --no-fail-fast -> exit %d" % c)
    if c != 0:
        res["suite_tail"] = "\n".join(l for l in out.splitlines() if "FAILED" in l or "failed" in l)[-800:]
    shutil.copy(demo, tfile)
    c, out = sh(["cargo", "test", "--offline", "--test", tname], wt, env)
    res["demo_fails_with_change"] = c != 0
    res["ran"].append("changed: cargo test --offline --test " + tname + " -> exit %d" % c)
    clean()
    ok = all(res.get(k) for k in ("applies", "builds", "suite_passes_with_change", "demo_fails_with_change", "demo_passes_without_change"))
    res["confirmed"] = ok
    if ok:
        d = os.path.join(VERIF, "seeded", sid)
        os.makedirs(d, exist_ok=True)
        shutil.copy(patch, os.path.join(d, "patch.diff"))
        shutil.copy(demo, os.path.join(d, "demo.rs"))
        m = {
            "id": sid,
            "property": meta.get("property"),
            "title": meta.get("title"),
            "description": meta.get("description"),
            "needs_to_manifest": meta.get("needs_to_manifest"),
            "why_tests_still_pass": meta.get("why_tests_still_pass"),
            "author": "independent sub-agent given only the property text and a scratch worktree",
            "confirmed_by_me": res,
            "demo_how_to_run": "copy demo.rs to <crate>/tests/demo.rs; cargo test --offline --test demo (fails with patch.diff applied, passes without)",
        }
        json.dump(m, open(os.path.join(d, "meta.json"), "w"), indent=1)
    return res, meta


def detect(sid, tier, checks):
    d = os.path.join(VERIF, "seeded", sid)
    meta = json.load(open(os.path.join(d, "meta.json")))
    props = checks or [meta["property"]]
    c, out = sh(["git", "-C", "/repo", "status", "--porcelain", "--untracked-files=no"], "/repo")
    if out.strip():
        print("refusing: /repo has uncommitted changes:\n" + out)
        sys.exit(2)
    c, out = sh(["git", "-C", "/repo", "apply", os.path.join(d, "patch.diff")], "/repo")
    if c != 0:
        print("patch does not apply to /repo: " + out)
        sys.exit(2)
    results = {}
    try:
        for p in props:
            t0 = time.time()
            c, out = sh([os.path.join(VERIF, "check"), p, "--tier", tier], VERIF, timeout=14400)
            lines = [l for l in out.splitlines() if l.startswith("VIOLATION") or l.startswith("violation") or l.startswith("  detail") or l.startswith("HARNESS-ERROR") or l.startswith("KNOWN-FINDING")]
            results[p] = {"exit": c, "detected": c == 1, "wall_s": round(time.time() - t0, 1), "lines": lines[:12]}
            print(f"[{sid}] check {p} ({tier}): exit {c} {'DETECTED' if c == 1 else ('MISSED' if c == 0 else 'HARNESS-ERROR')} in {time.time() - t0:.0f}s")
            for l in lines[:6]:
                print("    " + l[:300])
    finally:
        sh(["git", "-C", "/repo", "checkout", "--", "."], "/repo")
    prev = {}
    pth = os.path.join(d, "detect.json")
    if os.path.exists(pth):
        prev = json.load(open(pth))
    prev.setdefault("runs", []).append({"tier": tier, "verif_commit": sh(["git", "-C", VERIF, "rev-parse", "--short", "HEAD"], VERIF)[1].strip(), "results": results})
    json.dump(prev, open(pth, "w"), indent=1)
    return results


if __name__ == "__main__":
    if sys.argv[1] == "verify":
        res, meta = verify(sys.argv[2], sys.argv[3], sys.argv[4])
        print(json.dumps(res, indent=1))
        sys.exit(0 if res.get("confirmed") else 1)
    elif sys.argv[1] == "detect":
        sid = sys.argv[2]
        tier = "quick"
        checks = None
        a = sys.argv[3:]
        i = 0
        while i < len(a):
            if a[i] == "--tier":
                tier = a[i + 1]
                i += 2
            elif a[i] == "--checks":
                checks = a[i + 1].split(",")
                i += 2
            else:
                i += 1
        detect(sid, tier, checks)
