#!/bin/sh
# Background false-alarm sweep: build once, then run every in-process sub-check at the given
# tier for each VERIF_SEED given. Binaries are invoked directly so that nothing is rebuilt
# mid-sweep (the working tree of /repo may be patched temporarily by seeded-defect runs).
# usage: tools/sweep.sh <tier> <seed>...
tier=$1; shift
seeds="$*"
here=$(cd "$(dirname "$0")/.." && pwd)
cd "$here" || exit 2
./check build || exit 2
export VERIF_TMP="$here/target/tmp"
rc=0
for seed in $seeds; do
  for job in "std c04-pipeline" "std c05-budget" "std c16-ingest" "std c18-consumer" "std c18-mphf-serial" "std c20-serde" "std c20-export" "std c19-large" "shuttle c19-finish" "shuttle c18-mphf-par" "shuttle c04-recompress-sched"; do
    set -- $job
    bin="$here/target/$1/release/sim-$1"
    "$bin" "$2" --tier "$tier" --seed "$seed" --part-dir "$here/sweep/parts-$seed" --replay-dir "$here/sweep/replays" --known-findings "$here/known_findings.json" 2>/dev/null | grep -E "^\[|VIOLATION|violation|KNOWN|HARNESS" 
    code=$?
    echo "SWEEP tier=$tier seed=$seed check=$2 done"
  done
done
# debug-assertions leg of engine S (reduced counts)
for seed in $seeds; do
  for job in "c04-pipeline 30000 1000000" "c05-budget 15000 400000" "c16-ingest 50000 2000000" "c18-consumer 100000 4000000" "c18-mphf-serial 15000 400000" "c20-serde 50000 2000000" "c20-export 50000 2000000"; do
    set -- $job
    n=$2; [ "$tier" = thorough ] && n=$3
    "$here/target/std-dbg/dbgassert/sim-std" "$1" --tier "$tier" --seed "$seed" --cases "$n" --part-dir "$here/sweep/parts-dbg-$seed" --replay-dir "$here/sweep/replays" --known-findings "$here/known_findings.json" 2>/dev/null | grep -E "^\[|VIOLATION|violation|KNOWN|HARNESS"
    echo "SWEEP tier=$tier seed=$seed check=$1@dbgassert done"
  done
done
echo "SWEEP finished"
