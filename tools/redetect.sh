#!/bin/sh
# Re-run the detection of every kept seeded change against the current checks, one at a time
# (each run patches /repo and undoes the patch). Waits while /verif/target/redetect.pause exists.
# usage: tools/redetect.sh <id-glob>...   e.g. tools/redetect.sh 'C16-*' 'C05-*'
here=$(cd "$(dirname "$0")/.." && pwd)
cd "$here" || exit 2
for pat in "$@"; do
  for d in seeded/$pat; do
    id=$(basename "$d")
    case "$id" in negative-*) continue;; esac
    while [ -e "$here/target/redetect.pause" ]; do sleep 10; done
    VERIF_HANG_LIMIT_S=200 python3 tools/seeded.py detect "$id" 2>&1 | grep -E "^\[C" | tail -1
    git -C /repo status --short | grep -q . && { echo "REPO DIRTY after $id - stopping"; exit 2; }
  done
done
echo "REDETECT finished"
